/-
C09 — the export depends only on which secrets are supplied, not on how.
Property theorems only; helper lemmas are in `TLX/Lemmas/Keylog.lean`, the model in `TLX/Keylog.lean`,
the independent meaning of a key log in `TLX/Spec/NssKeylog.lean`.

The model has switches where the check found the code as found violating the property
(`Cfg.original`); the full statements are proved for the repaired configuration and refuted, by a
concrete witness each, for the configuration as found. Which configuration the tree under test has
is established on every run by harness/c09.py (pattern string regenerated into `TLX/Gen/Consts.lean`,
correspondence of the lookups, a probe of `run()`).
-/
import TLX.Lemmas.Keylog
namespace TLX.Props.C09
open TLX.Keylog TLX.Spec.NssKeylog TLX.Lemmas.Keylog

/-! ## splitting, line ends, foreign lines -/

/-- Cutting a key log at a line boundary and parsing the pieces separately gives the same key list
    in the same order: which lines travel in the `-s` file and which in which DSB is irrelevant. -/
theorem parse_split_at_line_boundary (hx : HexClass) (a b : Str) :
    getKeysFromString hx (a ++ 10 :: b) = getKeysFromString hx a ++ getKeysFromString hx b :=
  parse_append_lf hx a b

/-- … for any number of pieces (file, DSB₁, DSB₂, …) joined with `"\n"`. -/
theorem parse_pieces_eq_parse_joined (hx : HexClass) (ps : List Str) :
    ps.flatMap (getKeysFromString hx) = getKeysFromString hx (joinLF ps) :=
  parse_pieces hx ps

/-- `"\n"` → `"\r\n"` everywhere. -/
def toCRLF (t : Str) : Str := t.flatMap fun c => if c = 10 then [13, 10] else [c]

/-- Two texts that differ only in where CRs stand give the same keys … -/
theorem cr_placement_irrelevant (hx : HexClass) (t₁ t₂ : Str) (h : removeCR t₁ = removeCR t₂) :
    getKeysFromString hx t₁ = getKeysFromString hx t₂ := by
  simp only [getKeysFromString, h]

/-- … in particular LF and CRLF line ends (for every text, mixed line ends included). -/
theorem crlf_irrelevant (hx : HexClass) (t : Str) :
    getKeysFromString hx (toCRLF t) = getKeysFromString hx t := by
  apply cr_placement_irrelevant
  induction t with
  | nil => rfl
  | cons c cs ih =>
    simp only [toCRLF, List.flatMap_cons, removeCR, List.filter_append] at ih ⊢
    rw [ih]
    by_cases h10 : c = 10
    · subst h10; simp
    · by_cases h13 : c = 13
      · subst h13; simp
      · simp [h10, h13]

/-- Reading the key log through a text-mode file (universal newlines) changes nothing for LF/CRLF
    files. -/
theorem file_text_mode_irrelevant (hx : HexClass) (t : Str) (h : CrOk t) :
    getKeysFromString hx (universalNewlines t) = getKeysFromString hx t :=
  cr_placement_irrelevant hx _ _ (removeCR_universalNewlines t h)

/-- A line that does not look like a secret line — comment, blank line, prose, lines of other
    formats — yields no key, whatever the hex class of the pattern. -/
theorem foreign_lines_ignored (hx : HexClass) (line : Str) (h : ¬ LooksLikeKey line) :
    getKeyFromLine hx line = none := by
  unfold getKeyFromLine
  split
  · rename_i hacc; exact absurd (looks_of_accepts hacc) h
  · rfl

/-- Comment lines (`#…`) and blank lines are such lines. -/
theorem comment_and_blank_ignored (hx : HexClass) (rest : Str) :
    getKeyFromLine hx (35 :: rest) = none ∧ getKeyFromLine hx [] = none :=
  ⟨foreign_lines_ignored hx _ (not_looks_of_first 35 rest (by decide)),
   foreign_lines_ignored hx _ not_looks_nil⟩

/-- The hand-written prefix recogniser accepts exactly the lines the pattern — read literally, with
    an explicit repetition count for `{3,32}` and `re.match`'s start-only anchoring — matches. -/
theorem recogniser_is_pattern (hx : HexClass) (line : Str) :
    accepts hx line = true ↔ MatchesPattern hx line :=
  accepts_iff_matchesPattern hx line

/-- `Key(line)` cannot raise `IndexError` on a line the pattern accepted. -/
theorem key_init_total (hx : HexClass) (line : Str) (h : accepts hx line = true) :
    ∃ k, getKeyFromLine hx line = some k := by
  obtain ⟨k, hk⟩ := keyOfLine_of_accepts h
  exact ⟨k, by simp [getKeyFromLine, h, hk]⟩

/-! ## the secrets every lookup installs -/

/-- C09 at the level of the lookups, for a configuration of the model and a session with client
    random `cr`: two key logs that are well formed for the session (every line is a secret line, or
    inert, or carries another client random; CR only in CRLF), denote the same set of
    (label, `cr`, secret) triples — whatever the order, repetition, decoration, line-end style and
    hex-digit case — and are consistent (one secret per label) make the session install the same
    secrets, for TLS ≤ 1.2, TLS 1.3 and QUIC alike. -/
def keys_invariant_under_delivery_statement (cfg : Cfg) : Prop :=
  ∀ (cr : List Nat) (t₁ t₂ : Str), WellFormedFor cr t₁ → WellFormedFor cr t₂ →
    EquivalentFor cr t₁ t₂ → ConsistentFor cr t₁ →
    installed cfg.sel12 (getKeysFromString cfg.hex t₁) cr =
      installed cfg.sel12 (getKeysFromString cfg.hex t₂) cr

/-- The client random has no line with another label beside a CLIENT_RANDOM line. -/
def NoMixedLabelsFor (cr : List Nat) (t : Str) : Prop :=
  ∀ v l w, HasTriple t ⟨s_CLIENT_RANDOM, cr, v⟩ → HasTriple t ⟨l, cr, w⟩ → l = s_CLIENT_RANDOM

/-- Every configuration satisfies the statement restricted to key logs whose client randoms are
    written in the pattern's hex class and — for the first-line selection — without mixed labels. -/
theorem keys_invariant_under_delivery_partial (cfg : Cfg) (cr : List Nat) (t₁ t₂ : Str)
    (wf₁ : WellFormedFor cr t₁) (wf₂ : WellFormedFor cr t₂) (heq : EquivalentFor cr t₁ t₂)
    (hcons : ConsistentFor cr t₁) (hcls₁ : CrInClass cfg.hex t₁) (hcls₂ : CrInClass cfg.hex t₂)
    (hmix : cfg.sel12 = .first → NoMixedLabelsFor cr t₁) :
    installed cfg.sel12 (getKeysFromString cfg.hex t₁) cr =
      installed cfg.sel12 (getKeysFromString cfg.hex t₂) cr := by
  have r₁ := repFor_parse cfg.hex cr t₁ wf₁ hcls₁
  have r₂ : RepFor cr (getKeysFromString cfg.hex t₂) (HasTriple t₁) := by
    have r := repFor_parse cfg.hex cr t₂ wf₂ hcls₂
    refine ⟨fun k hk => ?_, fun tr h hc => r.2 tr ((heq tr hc).mp h) hc⟩
    obtain ⟨b, hb, hT⟩ := r.1 k hk
    exact ⟨b, hb, fun e => let ⟨tr, a, c, d⟩ := hT e; ⟨tr, a, (heq tr d).mpr c, d⟩⟩
  have hc : ConsistentTFor cr (HasTriple t₁) := hcons
  cases hs : cfg.sel12 with
  | firstMaster => exact installed_eq_of_repFor r₁ r₂ hc
  | first => exact installed_eq_of_repFor_first r₁ r₂ hc (fun v l w a b => hmix hs v l w a b)

/-- **Full strength, repaired code** (pattern accepts `[a-fA-F0-9]`, TLS ≤ 1.2 takes the first
    CLIENT_RANDOM/RSA line of the session): no further hypothesis. -/
theorem keys_invariant_under_delivery : keys_invariant_under_delivery_statement Cfg.repaired := by
  intro cr t₁ t₂ wf₁ wf₂ heq hcons
  exact keys_invariant_under_delivery_partial Cfg.repaired cr t₁ t₂ wf₁ wf₂ heq hcons
    (crInClass_any t₁) (crInClass_any t₂) (fun h => by cases h)

/-- Corollary for whole logs: well formed, same set of triples, consistent ⇒ every session installs
    the same secrets. -/
theorem keys_invariant_under_delivery_global (t₁ t₂ : Str) (wf₁ : WellFormed t₁) (wf₂ : WellFormed t₂)
    (heq : Equivalent t₁ t₂) (hcons : Consistent t₁) (cr : List Nat) :
    installed .firstMaster (getKeysFromString .any t₁) cr = installed .firstMaster (getKeysFromString .any t₂) cr :=
  keys_invariant_under_delivery cr t₁ t₂ (wellFormedFor_of_wellFormed wf₁ cr) (wellFormedFor_of_wellFormed wf₂ cr)
    (fun tr _ => heq tr) (fun tr tr' a b c d e => hcons tr tr' a b e (c.trans d.symm))

/-! ### witnesses -/

def wCr : List Nat := [1, 35, 69, 103, 137, 171, 205, 239, 1, 35, 69, 103, 137, 171, 205, 239, 1, 35, 69, 103, 137, 171, 205, 239, 1, 35, 69, 103, 137, 171, 205, 239]
def trA : Triple := ⟨s_CLIENT_RANDOM, wCr, [171]⟩
def trB : Triple := ⟨[69, 88, 80, 79, 82, 84, 69, 82, 95, 83, 69, 67, 82, 69, 84], wCr, [205]⟩
def wHex : Str := [48, 49, 50, 51, 52, 53, 54, 55, 56, 57, 97, 98, 99, 100, 101, 102, 48, 49, 50, 51, 52, 53, 54, 55, 56, 57, 97, 98, 99, 100, 101, 102, 48, 49, 50, 51, 52, 53, 54, 55, 56, 57, 97, 98, 99, 100, 101, 102, 48, 49, 50, 51, 52, 53, 54, 55, 56, 57, 97, 98, 99, 100, 101, 102]
def wHexU : Str := [48, 49, 50, 51, 52, 53, 54, 55, 56, 57, 65, 66, 67, 68, 69, 70, 48, 49, 50, 51, 52, 53, 54, 55, 56, 57, 65, 66, 67, 68, 69, 70, 48, 49, 50, 51, 52, 53, 54, 55, 56, 57, 65, 66, 67, 68, 69, 70, 48, 49, 50, 51, 52, 53, 54, 55, 56, 57, 65, 66, 67, 68, 69, 70]
/-- `CLIENT_RANDOM 0123456789abcdef0123456789abcdef0123456789abcdef0123456789abcdef ab` -/
def wL1 : Str := [67, 76, 73, 69, 78, 84, 95, 82, 65, 78, 68, 79, 77, 32, 48, 49, 50, 51, 52, 53, 54, 55, 56, 57, 97, 98, 99, 100, 101, 102, 48, 49, 50, 51, 52, 53, 54, 55, 56, 57, 97, 98, 99, 100, 101, 102, 48, 49, 50, 51, 52, 53, 54, 55, 56, 57, 97, 98, 99, 100, 101, 102, 48, 49, 50, 51, 52, 53, 54, 55, 56, 57, 97, 98, 99, 100, 101, 102, 32, 97, 98]
/-- `CLIENT_RANDOM 0123456789ABCDEF0123456789ABCDEF0123456789ABCDEF0123456789ABCDEF AB` -/
def wL1U : Str := [67, 76, 73, 69, 78, 84, 95, 82, 65, 78, 68, 79, 77, 32, 48, 49, 50, 51, 52, 53, 54, 55, 56, 57, 65, 66, 67, 68, 69, 70, 48, 49, 50, 51, 52, 53, 54, 55, 56, 57, 65, 66, 67, 68, 69, 70, 48, 49, 50, 51, 52, 53, 54, 55, 56, 57, 65, 66, 67, 68, 69, 70, 48, 49, 50, 51, 52, 53, 54, 55, 56, 57, 65, 66, 67, 68, 69, 70, 32, 65, 66]
/-- `EXPORTER_SECRET 0123456789abcdef0123456789abcdef0123456789abcdef0123456789abcdef cd` -/
def wL2 : Str := [69, 88, 80, 79, 82, 84, 69, 82, 95, 83, 69, 67, 82, 69, 84, 32, 48, 49, 50, 51, 52, 53, 54, 55, 56, 57, 97, 98, 99, 100, 101, 102, 48, 49, 50, 51, 52, 53, 54, 55, 56, 57, 97, 98, 99, 100, 101, 102, 48, 49, 50, 51, 52, 53, 54, 55, 56, 57, 97, 98, 99, 100, 101, 102, 48, 49, 50, 51, 52, 53, 54, 55, 56, 57, 97, 98, 99, 100, 101, 102, 32, 99, 100]
/-- `SOME_OTHER_TOOL fedcba9876543210fedcba9876543210fedcba9876543210fedcba9876543210 not-hex at all` — another tool's label, another client random, no hex secret -/
def wAlien : Str := [83, 79, 77, 69, 95, 79, 84, 72, 69, 82, 95, 84, 79, 79, 76, 32, 102, 101, 100, 99, 98, 97, 57, 56, 55, 54, 53, 52, 51, 50, 49, 48, 102, 101, 100, 99, 98, 97, 57, 56, 55, 54, 53, 52, 51, 50, 49, 48, 102, 101, 100, 99, 98, 97, 57, 56, 55, 54, 53, 52, 51, 50, 49, 48, 102, 101, 100, 99, 98, 97, 57, 56, 55, 54, 53, 52, 51, 50, 49, 48, 32, 110, 111, 116, 45, 104, 101, 120, 32, 97, 116, 32, 97, 108, 108]
def wPlain : Str := wL1 ++ 10 :: wL2
def wSwapped : Str := wL2 ++ 10 :: wL1

theorem wL1_denotes : Denotes wL1 trA := ⟨wHex, [97, 98], by decide⟩
theorem wL1U_denotes : Denotes wL1U trA := ⟨wHexU, [65, 66], by decide⟩
theorem wL2_denotes : Denotes wL2 trB := ⟨wHex, [99, 100], by decide⟩
theorem wAlien_alien : AlienFor wCr wAlien :=
  ⟨[83, 79, 77, 69, 95, 79, 84, 72, 69, 82, 95, 84, 79, 79, 76], [102, 101, 100, 99, 98, 97, 57, 56, 55, 54, 53, 52, 51, 50, 49, 48, 102, 101, 100, 99, 98, 97, 57, 56, 55, 54, 53, 52, 51, 50, 49, 48, 102, 101, 100, 99, 98, 97, 57, 56, 55, 54, 53, 52, 51, 50, 49, 48, 102, 101, 100, 99, 98, 97, 57, 56, 55, 54, 53, 52, 51, 50, 49, 48], [110, 111, 116, 45, 104, 101, 120, 32, 97, 116, 32, 97, 108, 108], [254, 220, 186, 152, 118, 84, 50, 16, 254, 220, 186, 152, 118, 84, 50, 16, 254, 220, 186, 152, 118, 84, 50, 16, 254, 220, 186, 152, 118, 84, 50, 16], by decide⟩

theorem cls_L1 : ClassifiedFor wCr (lines wL1) [.secret trA] := by
  rw [show lines wL1 = [wL1] by decide +kernel]
  exact ⟨⟨by decide, wL1_denotes⟩, trivial⟩
theorem cls_L1U : ClassifiedFor wCr (lines wL1U) [.secret trA] := by
  rw [show lines wL1U = [wL1U] by decide +kernel]
  exact ⟨⟨by decide, wL1U_denotes⟩, trivial⟩
theorem cls_L1L2 : ClassifiedFor wCr (lines wPlain) [.secret trA, .secret trB] := by
  rw [show lines wPlain = [wL1, wL2] by decide +kernel]
  exact ⟨⟨by decide, wL1_denotes⟩, ⟨by decide, wL2_denotes⟩, trivial⟩
theorem cls_L2L1 : ClassifiedFor wCr (lines wSwapped) [.secret trB, .secret trA] := by
  rw [show lines wSwapped = [wL2, wL1] by decide +kernel]
  exact ⟨⟨by decide, wL2_denotes⟩, ⟨by decide, wL1_denotes⟩, trivial⟩

theorem consistent_AB : ∀ tr tr', LineKind.secret tr ∈ [LineKind.secret trA, .secret trB] →
    LineKind.secret tr' ∈ [LineKind.secret trA, .secret trB] → tr.label = tr'.label → tr.secret = tr'.secret := by
  intro tr tr' a b hl
  simp only [List.mem_cons, LineKind.secret.injEq, List.mem_nil_iff, or_false] at a b
  rcases a with rfl | rfl <;> rcases b with rfl | rfl <;> first | rfl | (revert hl; decide)

set_option maxRecDepth 8000 in
/-- **Code as found, hex class** (`[a-f]|[0-9]`): the same secret with the client random in
    upper-case hex is not installed. Witness: `CLIENT_RANDOM 0123456789abcdef0123456789abcdef0123456789abcdef0123456789abcdef ab` vs. the same line in upper case; the TLS ≤ 1.2
    lookup yields the master secret for the first and "Missing Secrets" for the second. -/
theorem uppercase_counterexample (s : Sel12) : ¬ keys_invariant_under_delivery_statement ⟨.lower, s⟩ := by
  intro H
  have h := H wCr wL1 wL1U (wellFormedFor_of_classified cls_L1) (wellFormedFor_of_classified cls_L1U)
    (equivalentFor_of_classified cls_L1 cls_L1U (fun _ => Iff.rfl))
    (consistentFor_of_classified cls_L1 (by
      intro tr tr' a b _
      simp only [List.mem_singleton, LineKind.secret.injEq] at a b
      rw [a, b]))
  revert h
  cases s <;> decide +kernel

set_option maxRecDepth 8000 in
/-- **Code as found, TLS ≤ 1.2 selection** (`secret_list[0]` whatever its label): with a second
    label on the same client random the line order decides. Witness: the CLIENT_RANDOM line followed
    by an EXPORTER_SECRET line (master secret installed) vs. the two lines swapped (`keys` unbound). -/
theorem label_order_counterexample (hx : HexClass) : ¬ keys_invariant_under_delivery_statement ⟨hx, .first⟩ := by
  intro H
  have h := H wCr wPlain wSwapped (wellFormedFor_of_classified cls_L1L2) (wellFormedFor_of_classified cls_L2L1)
    (equivalentFor_of_classified cls_L1L2 cls_L2L1 (fun tr => by
      simp only [List.mem_cons, List.mem_nil_iff, or_false]; exact or_comm))
    (consistentFor_of_classified cls_L1L2 consistent_AB)
  revert h
  cases hx <;> decide +kernel

/-- Non-vacuity of `keys_invariant_under_delivery`: a decorated, permuted, CRLF, duplicated,
    partly upper-case key log with a line of another tool for another client random, equivalent (for
    the session `wCr`) to the plain two-line log; both are well formed and consistent, the key lists
    differ, and the installed master secret is the one the lines carry. -/
def wDecorated : Str :=   -- "# comment\r\n" ++ L2 ++ "\r\n\r\n" ++ L1 (upper case) ++ "\r\n" ++ alien ++ "\n" ++ L1 ++ "\n"
  [35, 32, 99, 111, 109, 109, 101, 110, 116, 13, 10] ++ wL2 ++ [13, 10, 13, 10] ++ wL1U ++ [13, 10] ++ wAlien ++ [10] ++ wL1 ++ [10]

theorem cls_decorated : ClassifiedFor wCr (lines wDecorated)
    [.inert, .secret trB, .inert, .secret trA, .alien, .secret trA, .inert] := by
  rw [show lines wDecorated = [[35, 32, 99, 111, 109, 109, 101, 110, 116], wL2, [], wL1U, wAlien, wL1, []] by decide +kernel]
  exact ⟨⟨by decide, not_looks_of_first _ _ (by decide)⟩, ⟨by decide, wL2_denotes⟩, ⟨by decide, not_looks_nil⟩,
    ⟨by decide, wL1U_denotes⟩, ⟨by decide, wAlien_alien⟩, ⟨by decide, wL1_denotes⟩, ⟨by decide, not_looks_nil⟩, trivial⟩

set_option maxRecDepth 8000 in
example : WellFormedFor wCr wPlain ∧ WellFormedFor wCr wDecorated ∧ EquivalentFor wCr wPlain wDecorated ∧
    ConsistentFor wCr wPlain ∧
    (getKeysFromString .any wPlain).length = 2 ∧ (getKeysFromString .any wDecorated).length = 4 ∧
    (installed .firstMaster (getKeysFromString .any wDecorated) wCr).tls12 = .ok (false, [171]) :=
  ⟨wellFormedFor_of_classified cls_L1L2, wellFormedFor_of_classified cls_decorated,
   equivalentFor_of_classified cls_L1L2 cls_decorated (fun tr => by
      simp only [List.mem_cons, List.mem_nil_iff, or_false, reduceCtorEq, false_or, or_self]
      constructor <;> (intro h; rcases h with h | h <;> simp [h])),
   consistentFor_of_classified cls_L1L2 consistent_AB,
   by decide +kernel, by decide +kernel, by decide +kernel⟩

/-! ## where the keys come from -/

/-- The text the key list is parsed from: the `-s` file as text mode delivers it, then the DSBs. -/
def sourceText (file : Option Str) (dsbs : List Str) : Str :=
  joinLF ((file.map universalNewlines).toList ++ dsbs)

/-- What `run()` is asked to do about keys, for a configuration (`packetFirst`, `-s` default). -/
def delivery_irrelevant_statement (packetFirst : Bool) : Prop :=
  ∀ (hx : HexClass) (sArg : Option Str) (fs : Str → Option Str) (dsbs : List Str),
    (∀ p, sArg = some p → (fs p).isSome) →
    loadKeylog hx packetFirst none sArg fs dsbs =
      .keys (getKeysFromString hx (sourceText (sArg.bind fs) dsbs))

/-- **Repaired code** (DSBs are recognised before a `Packet` is built): with an existing `-s` file
    or none, the key list is the parse of *one* text — file content followed by the DSB contents —
    so together with `keys_invariant_under_delivery` only the set of secrets matters, not whether
    it arrives as file, one DSB, several DSBs or a mixture. -/
theorem delivery_irrelevant : delivery_irrelevant_statement false := by
  intro hx sArg fs dsbs hex
  cases sArg with
  | none =>
    simp [loadKeylog, loadKeylog.fromDsbs, sourceText, parse_pieces]
  | some p =>
    obtain ⟨t, ht⟩ := Option.isSome_iff_exists.mp (hex p rfl)
    simp only [loadKeylog, Option.orElse, ht, loadKeylog.fromDsbs, Bool.false_and, Bool.false_eq_true,
      if_false, sourceText, Option.bind, Option.map, Option.toList]
    rw [List.singleton_append, ← parse_pieces hx (universalNewlines t :: dsbs)]
    simp

/-- **Code as found** (`Packet(buf, ts)` before `ts == -1`): a DSB shorter than an Ethernet header
    — an empty one, a blank line, a short comment — aborts the run. -/
theorem short_dsb_counterexample : ¬ delivery_irrelevant_statement true := by
  intro H
  have h := H .any none (fun _ => none) [[]] (by intro p hp; cases hp)
  revert h
  decide

/-- Without `-s`, for a given `-s` default: the key list is exactly the DSB keys, whatever the
    file system looks like from the working directory. -/
def dsb_only_without_s_statement (sDefault : Option Str) : Prop :=
  ∀ (hx : HexClass) (fs : Str → Option Str) (dsbs : List Str),
    loadKeylog hx false sDefault none fs dsbs = .keys (dsbs.flatMap (getKeysFromString hx))

/-- **Repaired code** (`-s` default `None`). -/
theorem dsb_only_without_s : dsb_only_without_s_statement none := by
  intro hx fs dsbs
  simp [loadKeylog, loadKeylog.fromDsbs]

/-- **Code as found** (`-s` defaults to a relative sample path): in a working directory where that
    file does not exist the program exits although the DSBs carry the keys. -/
theorem default_s_counterexample (p : Str) : ¬ dsb_only_without_s_statement (some p) := by
  intro H
  have h := H .any (fun _ => none) []
  simp [loadKeylog] at h

-- non-vacuity: one file, the same text cut into two DSBs, and file + DSB give the same key list
example : loadKeylog .any false none (some [107]) (fun p => if p = [107] then some wPlain else none) [] =
    loadKeylog .any false none none (fun _ => none) [wL1, wL2] ∧
    loadKeylog .any false none (some [107]) (fun p => if p = [107] then some wL1 else none) [wL2] =
    loadKeylog .any false none none (fun _ => none) [wPlain] := by decide +kernel

end TLX.Props.C09
