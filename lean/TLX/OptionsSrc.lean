/-
Constants of the port-option model taken from the source tree under test (regenerated on every run
into `TLX/Gen/Consts.lean`).
-/
import TLX.Options
import TLX.Gen.Consts
namespace TLX.Options.Src

def builtin : List Int := TLX.Gen.builtinServerPorts.map Int.ofNat
def pDefault : List Int := TLX.Gen.serverportsDefault.map Int.ofNat
def bare : List (List Nat) := TLX.Gen.mapportsBare
def tcpDefault : Int := TLX.Gen.tcpDefaultPort
def quicDefault : Int := TLX.Gen.quicDefaultPort

/-- `run()`'s option handling with the constants of the tree under test. -/
def parse (pArg mArg : Option (List (List Nat))) : Except Err Parsed :=
  TLX.Options.parse builtin pDefault bare pArg mArg

end TLX.Options.Src
