/-
Model of TLExport's port options (C10). Core Lean only (linked into `tlxdriver`).

source                                                     model
---------------------------------------------------------  -------------------------------------------
main.py:23,189,203  server_ports = [443, 44330] ++ -p      `serverPorts`
main.py:28-36       MapPortsAction                          `mapPortsAction`, `keepOriginalPorts`
main.py:76-98       get_port_map                            `getPortMap` (comma removal, split at `:`, `int`)
main.py:121         TLS candidate test                      `tlsCandidate`
session.py:208-227  set_client_and_server_ports             `roles`   (same code: quic_session.py set_server_client_address)
output_builder.py:30-36        OutputBuilder.__init__       `tcpOut`
quic/quic_output_builder.py:22-26  QUICOutputbuilder.__init__  `quicOut`

argparse itself is not modelled: the model starts from what argparse stores — the value strings of
`-p` (`none`: option absent, argparse supplies its default list of ints) and of `-m` (`none`:
absent; `some []`: bare `-m`). The harness calls the real `arg_parser_init()` on argument vectors
and compares. Constants (built-in ports, `-p` default, bare `-m` value, fallback output port) are
parameters here; `TLX/OptionsSrc.lean` instantiates them from the tree under test.

`quicHonoursKeep = false` is `QUICOutputbuilder` as found at the start of this work (it mapped
the server port whether or not `-m` was given); `true` is the repaired builder.

Ports are `Int`: `int()` accepts signs, and nothing in the code range-checks them (scapy does, when
the packet is built — not modelled).
-/
import TLX.Keylog
namespace TLX.Options
open TLX.Keylog (Str splitOn)

/-! ### `int(str)` (base 10, latin-1 text) -/

/-- white space `int()` strips below U+0100: ASCII white space, NEL and NBSP (measured: the
    separators U+001C–U+001F, which `str.isspace` accepts, are *not* stripped) -/
def isSpace (c : Nat) : Bool := c == 32 || (9 ≤ c && c ≤ 13) || c == 133 || c == 160

def isDigit (c : Nat) : Bool := 48 ≤ c && c ≤ 57

/-- digits with single underscores between digits; `prev`: the previous character was a digit -/
def digits : List Nat → Nat → Bool → Option Nat
  | [], acc, prev => if prev then some acc else none
  | c :: r, acc, prev =>
    if isDigit c then digits r (acc * 10 + (c - 48)) true
    else if c = 95 ∧ prev then digits r acc false
    else none

def strip (s : Str) : Str := ((s.dropWhile isSpace).reverse.dropWhile isSpace).reverse

/-- `int(s)`; `none` is the `ValueError`. -/
def pyInt (s : Str) : Option Int :=
  match strip s with
  | 45 :: r => (digits r 0 false).map fun n => -(n : Int)
  | 43 :: r => (digits r 0 false).map fun n => (n : Int)
  | r => (digits r 0 false).map fun n => (n : Int)

/-! ### `-p`, `-m` -/

inductive Err | value | index
  deriving DecidableEq, Repr

/-- `[int(x) for x in args.serverports]` appended to the built-in list; `pArg = none`: the argparse
    default (already ints). -/
def serverPorts (builtin pDefault : List Int) (pArg : Option (List Str)) : Except Err (List Int) :=
  match pArg with
  | none => .ok (builtin ++ pDefault)
  | some vs =>
    match vs.mapM pyInt with
    | none => .error .value
    | some ps => .ok (builtin ++ ps)

/-- `MapPortsAction.__call__`: `if values: … else: ["443:8080"]`. -/
def mapPortsAction (bare values : List Str) : List Str := if values.isEmpty then bare else values

/-- `keep_original_ports`: the parser default `True`, `False` as soon as `-m` occurs. -/
def keepOriginalPorts (mArg : Option (List Str)) : Bool := mArg.isNone

/-- Python `dict[k] = v`: the key keeps its place, the value is replaced. -/
def dictSet (m : List (Int × Int)) (k v : Int) : List (Int × Int) :=
  if m.any (·.1 == k) then m.map fun e => if e.1 == k then (k, v) else e else m ++ [(k, v)]

def dictGet? (m : List (Int × Int)) (k : Int) : Option Int := (m.find? (·.1 == k)).map (·.2)

/-- one `-m` value: `i.replace(",", "")`, `split(":")`, `int(split[0])`, `int(split[1])` -/
def mapEntry (tok : Str) : Except Err (Int × Int) :=
  match splitOn 58 (tok.filter (· ≠ 44)) with
  | a :: b :: _ =>
    match pyInt a with
    | none => .error .value
    | some x => match pyInt b with
      | none => .error .value
      | some y => .ok (x, y)
  | [a] => match pyInt a with
    | none => .error .value
    | some _ => .error .index
  | [] => .error .index

/-- `get_port_map` on the stored `mapports` (`none`: attribute absent). -/
def getPortMap (bare : List Str) (mArg : Option (List Str)) : Except Err (List (Int × Int)) :=
  match mArg with
  | none => .ok []
  | some vs => (mapPortsAction bare vs).foldlM (fun m tok => (mapEntry tok).map fun e => dictSet m e.1 e.2) []

structure Parsed where
  serverPorts : List Int
  keep : Bool
  portmap : List (Int × Int)
  deriving DecidableEq, Repr

/-- What `run()` computes from the options before it reads the capture (`get_port_map` first, then
    the server ports — the order in which a malformed value raises). -/
def parse (builtin pDefault : List Int) (bare : List Str) (pArg mArg : Option (List Str)) : Except Err Parsed :=
  match getPortMap bare mArg with
  | .error e => .error e
  | .ok pm =>
    match serverPorts builtin pDefault pArg with
    | .error e => .error e
    | .ok ps => .ok ⟨ps, keepOriginalPorts mArg, pm⟩

/-! ### which TCP packets start a TLS session, and who is the server -/

/-- `packet.dport in server_ports or packet.sport in server_ports` (for a packet that belongs to
    no existing session). -/
def tlsCandidate (ports : List Int) (sport dport : Nat) : Bool :=
  ports.contains (dport : Int) || ports.contains (sport : Int)

structure Roles where
  serverPort : Nat
  clientPort : Nat
  serverIsSender : Bool
  deriving DecidableEq, Repr

/-- `set_client_and_server_ports` / `set_server_client_address` on the first packet of a flow. -/
def roles (ports : List Int) (sport dport : Nat) : Roles :=
  if ports.contains (sport : Int) then ⟨sport, dport, true⟩ else ⟨dport, sport, false⟩

/-! ### the ports written to the output -/

/-- `if keep_original_ports is False: portmap[server_port] if server_port in portmap else default_port` -/
def outServerPort (keep : Bool) (pm : List (Int × Int)) (dflt : Int) (serverPort : Nat) : Int :=
  if keep then serverPort else (dictGet? pm serverPort).getD dflt

/-- (server port, client port) `OutputBuilder` writes. -/
def tcpOut (dflt : Int) (keep : Bool) (pm : List (Int × Int)) (r : Roles) : Int × Int :=
  (outServerPort keep pm dflt r.serverPort, r.clientPort)

/-- (server port, client port) `QUICOutputbuilder` writes. -/
def quicOut (quicHonoursKeep : Bool) (dflt : Int) (keep : Bool) (pm : List (Int × Int)) (r : Roles) : Int × Int :=
  (outServerPort (quicHonoursKeep && keep) pm dflt r.serverPort, r.clientPort)

end TLX.Options
