/-
Model of TLExport's main loop (C04 demultiplexing, C18 determinism). Core Lean only (linked into `tlxdriver`).

source                                                      model
----------------------------------------------------------  ------------------------------------------------
packet.py:7-60          Packet.__init__ (what the loop reads)  `Pkt` (`l4`, endpoints, `payload` = `tls_data`)
main.py:224-270         the per-packet classification in run() `classify`, `step`
main.py:102-123         handle_packet                          `tlsHandle`
session.py:217-237      set_client_and_server_ports            `rolesOf`          (same code: quic_session.py:337-360)
session.py:239-251      matches_session                        `TlsSess.matches`  (same code: quic_session.py:362-372)
main.py:126-189         handle_quic_packet                     `parseHeader`, `Sess.side`, `shortCandidates`, `cidMatch`, `quicTake`,
                                                               `quicHandleH`, `quicHandle` (`Legacy.*`: before the receiver-side rule)
quic_dissector.py:23-27 get_header_type                        first branch of `parseHeader1`
main.py:273-277         final concatenation                    `exportAll`
main.py:189-192         reset at the top of run()              `reset` (flags/literal regenerated: `Gen/MainLoopConsts.lean`)
main.py:194-212         option and key-log set-up              `body`, `runFrom`

The per-session machines are parameters:
* a TLS session (`TlsMachine`) is created from its first packet (`Session.__init__` calls `handle_packet(packet)` itself),
  is fed the packets routed to it, and is decrypted only at the END of the run with the key log as it is THEN
  (`self.keylog` is the module-level list, shared by reference; DSB blocks read later extend it);
* a QUIC session (`QuicMachine`) is created from its first packet WITHOUT processing it (`QuicSession.__init__`), then
  `handle_packet(packet, dcid, version)` runs online with the key log AS IT IS AT THAT MOMENT; its connection-ID sets
  (Python `set`s) are observers `clientCids`/`serverCids` of the state, modelled as lists whose order nothing here depends
  on except through the code's own `sorted(..., key=(-len, bytes))` (`sortCids`; see `Props/C18`);
* the 4-tuple and the roles of a session are fixed at creation and kept outside the abstract state.

Not modelled here: exceptions raised inside `Packet(...)`, the sessions' `handle_packet`/`decrypt`/`build_output` (C03),
the capture reader (C12: a capture is the list of `(ts, buf)` items it yields, DSBs as `ts == -1`), key-log text parsing
(C09: a DSB item carries the key list `get_keys_from_string` returns; `buf.decode('ascii')` raising is C03), the checksum
algorithm (C11: validity is the input bit `csumOk`), logging, the output writer (C06). `Pkt.tag` stands for everything else a
`Packet` object carries (time stamp, MAC addresses, sequence numbers, the raw frame): opaque to the loop, visible to sessions.
-/
import TLX.Py
import TLX.OptionsSrc
import TLX.Gen.MainLoopConsts
namespace TLX.MainLoop
open TLX (Bytes)

/-! ### packets -/

structure Endpoint where
  ip : Bytes        -- `ip.src` / `ip.dst`: 4 or 16 raw bytes, compared with `==`
  port : Nat
  deriving DecidableEq, Repr

/-- `tcp_packet` / `udp_packet` of `Packet`; `other`: not IP (then `tcp_packet` is False and `udp_packet` keeps its initial
    False), or IP carrying neither TCP nor UDP -/
inductive L4 | tcp | udp | other
  deriving DecidableEq, Repr

structure Pkt where
  l4 : L4
  src : Endpoint
  dst : Endpoint
  payload : Bytes     -- `tls_data`
  csumOk : Bool       -- what `calculate_checksum_tcp/udp(packet)` returns
  tag : Nat
  deriving DecidableEq, Repr

structure Opts where
  ports : List Int            -- `server_ports` after `run()` extended it
  checksumTest : Bool         -- `-c`
  greasy : Bool               -- `-g`
  metadata : Bool             -- `-a`
  keep : Bool                 -- `keep_original_ports`
  portmap : List (Int × Int)
  deriving DecidableEq, Repr

/-! ### session machines -/

structure TlsMachine (κ σ ο : Type) where
  /-- `Session(packet, server_ports, keylog, portmap, keep_original_ports, exp_meta)` incl. its `handle_packet(packet)` -/
  new : Opts → Pkt → σ
  /-- `session.handle_packet(packet)` -/
  feed : σ → Pkt → σ
  /-- `session.decrypt()`, reading the key log as it is at the end of the run -/
  out : σ → List κ → List ο

inductive Version | v1 | v2 | unknown
  deriving DecidableEq, Repr

structure QuicMachine (κ τ ο : Type) where
  /-- `QuicSession(packet, server_ports, keylog, portmap, keep_original_ports)` (does not process the packet) -/
  new : Opts → Pkt → τ
  /-- `session.handle_packet(packet, dcid, quic_version)` with the key log as it is now -/
  feed : τ → List κ → Pkt → Bytes → Version → τ
  clientCids : τ → List Bytes
  serverCids : τ → List Bytes
  /-- `quic_session.build_output(metadata)` -/
  out : Bool → τ → List ο

/-- a session object: the addresses `set_client_and_server_ports` / `set_server_client_address` stored, and the rest -/
structure Sess (α : Type) where
  server : Endpoint
  client : Endpoint
  st : α
  deriving DecidableEq, Repr

abbrev TlsSess := Sess
abbrev QuicSess := Sess

/-- `packet.sport in server_ports` → the source is the server, else the destination is. Returns (server, client). -/
def rolesOf (ports : List Int) (p : Pkt) : Endpoint × Endpoint :=
  if ports.contains (p.src.port : Int) then (p.src, p.dst) else (p.dst, p.src)

/-- `matches_session(packet)` / `matches_session_dgram(ip_src, ip_dst, sport, dport)`: either orientation -/
def Sess.matches {α : Type} (s : Sess α) (p : Pkt) : Bool :=
  (p.src == s.server && p.dst == s.client) || (p.src == s.client && p.dst == s.server)

/-! ### `handle_packet` (TLS over TCP) -/

section Tls
variable {κ σ ο : Type}

def tlsNew (M : TlsMachine κ σ ο) (o : Opts) (p : Pkt) : TlsSess σ :=
  let r := rolesOf o.ports p
  ⟨r.1, r.2, M.new o p⟩

/-- `packet.dport in server_ports or packet.sport in server_ports` -/
def candidate (o : Opts) (p : Pkt) : Bool :=
  o.ports.contains (p.dst.port : Int) || o.ports.contains (p.src.port : Int)

/-- first session in list order that matches gets the packet; else a new one iff a port is a server port -/
def tlsHandle (M : TlsMachine κ σ ο) (o : Opts) : List (TlsSess σ) → Pkt → List (TlsSess σ)
  | [], p => if candidate o p then [tlsNew M o p] else []
  | s :: rest, p =>
    if s.matches p then { s with st := M.feed s.st p } :: rest
    else s :: tlsHandle M o rest p

/-- the session list after the TCP packets `pkts` went through `handle_packet`, starting from `ss` -/
def tlsRun (M : TlsMachine κ σ ο) (o : Opts) (ss : List (TlsSess σ)) (pkts : List Pkt) : List (TlsSess σ) :=
  pkts.foldl (tlsHandle M o) ss

end Tls

/-! ### `handle_quic_packet` -/

/-- what the head of `handle_quic_packet` extracts from the datagram -/
inductive Hdr
  | tooShort                              -- long header in fewer than 6 bytes: `return`
  | long (dcid : Bytes) (ver : Version)
  | short
  deriving DecidableEq, Repr

def Hdr.dcid : Hdr → Bytes
  | .long d _ => d
  | _ => []            -- `dcid = b""` initially

def Hdr.ver : Hdr → Version
  | .long _ v => v
  | _ => .unknown      -- `quic_version = QuicVersion.UNKNOWN` initially

def versionOf (n : Nat) : Version := if n = 1 then .v1 else if n = 2 then .v2 else .unknown

/-- the datagram is `b0 :: rest` -/
def parseHeader1 (b0 : UInt8) (rest : Bytes) : Hdr :=
  if (b0.toNat >>> 7) &&& 1 = 1 then
    let payload := b0 :: rest
    if payload.length < 6 then .tooShort
    else
      match payload[5]? with
      | none => .tooShort                    -- unreachable (length ≥ 6)
      | some l => .long (Bytes.slice payload 6 (6 + l.toNat)) (versionOf (Bytes.beNat (Bytes.slice payload 1 5)))
  else .short

/-- `none`: `datagram_data[0]` raises IndexError (never from `run()`: empty payloads are skipped before) -/
def parseHeader : Bytes → Option Hdr
  | [] => none
  | b0 :: rest => some (parseHeader1 b0 rest)

/-- Python's `<=` on `bytes`: lexicographic by unsigned byte value, a proper prefix is smaller -/
def lexLe : Bytes → Bytes → Bool
  | [], _ => true
  | _ :: _, [] => false
  | a :: as, b :: bs => a.toNat < b.toNat || (a.toNat == b.toNat && lexLe as bs)

/-- the sort key `(-len(c), c)` -/
def cidLe (a b : Bytes) : Bool := b.length < a.length || (a.length == b.length && lexLe a b)

def insertCid (c : Bytes) : List Bytes → List Bytes
  | [] => [c]
  | d :: ds => if cidLe c d then c :: d :: ds else d :: insertCid c ds

/-- `sorted(cids, key=lambda c: (-len(c), c))` (the key is a total order on distinct byte strings, so the sorting algorithm
    does not matter: `Lemmas.MainLoop.sortCids_perm`) -/
def sortCids (cids : List Bytes) : List Bytes := cids.foldr insertCid []

/-- `len(cid) > 0 and cid == packet_payload[1:1 + len(cid)]` -/
def cidPrefixOf (payload cid : Bytes) : Bool :=
  decide (0 < cid.length) && cid == Bytes.slice payload 1 (1 + cid.length)

/-- short header: the first candidate, longest first, that is non-empty and a prefix of `payload[1:]` -/
def shortPick (cids : List Bytes) (payload : Bytes) : Option Bytes :=
  (sortCids cids).find? (cidPrefixOf payload)

/-- where a datagram stands relative to a session's address pair -/
inductive Side
  | offTuple       -- `matches_session_dgram` is False
  | fromClient     -- on the 4-tuple, `packet.ip_src == session.client_ip and packet.sport == session.client_port`
  | fromServer     -- on the 4-tuple, otherwise
  deriving DecidableEq, Repr

def Sess.side {α : Type} (s : Sess α) (p : Pkt) : Side :=
  if s.matches p then (if p.src == s.client then .fromClient else .fromServer) else .offTuple

/-- the CIDs a short-header datagram is compared with: on the session's own address pair only those chosen by the
    datagram's receiver (`server_cids` for a datagram from the client, `client_cids` for one from the server); on any
    other address pair (migration) `client_cids | server_cids` -/
def shortCandidates (cc sc : List Bytes) : Side → List Bytes
  | .offTuple => cc ++ sc
  | .fromClient => sc
  | .fromServer => cc

/-- the "first try matching connection IDs" part for one session; `some cid`: matched, `cid` is what `handle_packet` gets.
    `cc`, `sc`: the session's `client_cids`, `server_cids` in any order. -/
def cidMatch (cc sc : List Bytes) (side : Side) (h : Hdr) (payload : Bytes) : Option Bytes :=
  match h with
  | .long dcid _ => if 0 < dcid.length ∧ (dcid ∈ cc ∨ dcid ∈ sc) then some dcid else none
  | .short => shortPick (shortCandidates cc sc side) payload
  | .tooShort => none

/-- the rule before the receiver-side restriction: every CID of the session is a candidate, whatever the direction -/
def Legacy.cidMatch (cc sc : List Bytes) (h : Hdr) (payload : Bytes) : Option Bytes :=
  match h with
  | .long dcid _ => if 0 < dcid.length ∧ (dcid ∈ cc ∨ dcid ∈ sc) then some dcid else none
  | .short => shortPick (cc ++ sc) payload
  | .tooShort => none

section Quic
variable {κ τ ο : Type}

/-- one iteration of `for session in quic_sessions`: CID match first, then the 4-tuple of THIS session, before the next
    session is looked at. `some cid`: this session takes the packet, `handle_packet(packet, cid, version)`. -/
def quicTake (M : QuicMachine κ τ ο) (h : Hdr) (p : Pkt) (s : QuicSess τ) : Option Bytes :=
  match cidMatch (M.clientCids s.st) (M.serverCids s.st) (s.side p) h p.payload with
  | some c => some c
  | none => if s.matches p then some h.dcid else none

/-- `quicTake` under the old candidate rule -/
def Legacy.quicTake (M : QuicMachine κ τ ο) (h : Hdr) (p : Pkt) (s : QuicSess τ) : Option Bytes :=
  match Legacy.cidMatch (M.clientCids s.st) (M.serverCids s.st) h p.payload with
  | some c => some c
  | none => if s.matches p then some h.dcid else none

def quicNew (M : QuicMachine κ τ ο) (o : Opts) (kl : List κ) (h : Hdr) (p : Pkt) : QuicSess τ :=
  let r := rolesOf o.ports p
  ⟨r.1, r.2, M.feed (M.new o p) kl p h.dcid h.ver⟩

/-- the session loop and the creation rule, for a parsed header that is not `tooShort` -/
def quicLoop (M : QuicMachine κ τ ο) (o : Opts) (kl : List κ) (h : Hdr) : List (QuicSess τ) → Pkt → List (QuicSess τ)
  | [], p => if h = .short then [] else [quicNew M o kl h p]
  | s :: rest, p =>
    match quicTake M h p s with
    | some c => { s with st := M.feed s.st kl p c h.ver } :: rest
    | none => s :: quicLoop M o kl h rest p

def quicHandleH (M : QuicMachine κ τ ο) (o : Opts) (kl : List κ) (h : Hdr) (ss : List (QuicSess τ)) (p : Pkt) :
    List (QuicSess τ) :=
  if h = .tooShort then ss else quicLoop M o kl h ss p

/-- `handle_quic_packet(packet, keylog, quic_sessions, …)`; `none`: IndexError on an empty payload -/
def quicHandle (M : QuicMachine κ τ ο) (o : Opts) (kl : List κ) (ss : List (QuicSess τ)) (p : Pkt) :
    Option (List (QuicSess τ)) :=
  (parseHeader p.payload).map fun h => quicHandleH M o kl h ss p

/-- one call of `handle_quic_packet` as the loop makes it: the key log at that moment, the parsed header, the packet -/
structure QIn (κ : Type) where
  kl : List κ
  h : Hdr
  p : Pkt

/-- the session list after the datagrams `xs` went through `handle_quic_packet`, starting from `ss` -/
def quicRun (M : QuicMachine κ τ ο) (o : Opts) (ss : List (QuicSess τ)) (xs : List (QIn κ)) : List (QuicSess τ) :=
  xs.foldl (fun ss x => quicHandleH M o x.kl x.h ss x.p) ss

end Quic

/-! ### the loop of `run()` -/

inductive Item (κ : Type)
  | dsb (keys : List κ)      -- `ts == -1`: the keys of one decryption-secrets block
  | frame (p : Pkt)

inductive Why | notTcpUdp | emptyTcp | badCsumTcp | emptyUdp | badCsumUdp | noFixedBit
  deriving DecidableEq, Repr

/-- where one item of the capture goes; `quic` carries the first payload byte split off (the payload is not empty) -/
inductive Class (κ : Type)
  | keys (ks : List κ)
  | tls (p : Pkt)
  | quic (p : Pkt) (b0 : UInt8) (rest : Bytes)
  | ignore (why : Why)

def classify {κ : Type} (o : Opts) : Item κ → Class κ
  | .dsb ks => .keys ks
  | .frame p =>
    match p.l4 with
    | .tcp =>
      if p.payload.length = 0 then .ignore .emptyTcp
      else if o.checksumTest && !p.csumOk then .ignore .badCsumTcp
      else .tls p
    | .udp =>
      match p.payload with
      | [] => .ignore .emptyUdp
      | b0 :: rest =>
        if o.checksumTest && !p.csumOk then .ignore .badCsumUdp
        else if ((b0.toNat &&& 0x40) >>> 6 = 1) || o.greasy then .quic p b0 rest
        else .ignore .noFixedBit          -- "D-TLS Packet: pass"
    | .other => .ignore .notTcpUdp

/-- `keylog`, `sessions`, `quic_sessions` -/
structure State (κ σ τ : Type) where
  keylog : List κ
  tls : List (TlsSess σ)
  quic : List (QuicSess τ)

section Run
variable {κ σ τ ο : Type}

def step (TM : TlsMachine κ σ ο) (QM : QuicMachine κ τ ο) (o : Opts) (st : State κ σ τ) (it : Item κ) : State κ σ τ :=
  match classify o it with
  | .keys ks => { st with keylog := st.keylog ++ ks }
  | .tls p => { st with tls := tlsHandle TM o st.tls p }
  | .quic p b0 rest => { st with quic := quicHandleH QM o st.keylog (parseHeader1 b0 rest) st.quic p }
  | .ignore _ => st

def runItems (TM : TlsMachine κ σ ο) (QM : QuicMachine κ τ ο) (o : Opts) (st : State κ σ τ) (items : List (Item κ)) :
    State κ σ τ :=
  items.foldl (step TM QM o) st

/-- `all_decrypted_sessions`: every TLS session in creation order, then every QUIC session -/
def exportAll (TM : TlsMachine κ σ ο) (QM : QuicMachine κ τ ο) (o : Opts) (st : State κ σ τ) : List ο :=
  st.tls.flatMap (fun s => TM.out s.st st.keylog) ++ st.quic.flatMap (fun s => QM.out o.metadata s.st)

/-! ### `run()` as a whole, over the module-level state -/

/-- the four module-level lists of main.py -/
structure ModState (κ σ τ : Type) where
  serverPorts : List Int
  st : State κ σ τ

/-- what `run()` reads from argparse (the options that reach the loop; `-i`, `-o`, `-l`, `-d`, `-f` select files and logging) -/
structure Args where
  pArg : Option (List (List Nat))      -- `-p` value strings, `none`: absent
  mArg : Option (List (List Nat))      -- `-m` value strings, `none`: absent, `some []`: bare
  checksumTest : Bool
  greasy : Bool
  metadata : Bool
  deriving DecidableEq, Repr

/-- the files: keys of the `-s` file (`none`: no `-s`) and what the capture reader yields -/
structure Inputs (κ : Type) where
  fileKeys : Option (List κ)
  items : List (Item κ)

/-- main.py:189-192 — which of the four statements are present, and the literal, come from the tree under test -/
def reset (ms : ModState κ σ τ) : ModState κ σ τ :=
  { serverPorts := match TLX.Gen.runResetPorts with
                   | some l => l.map Int.ofNat
                   | none => ms.serverPorts
    st := { keylog := if TLX.Gen.runClearsKeylog then [] else ms.st.keylog
            tls := if TLX.Gen.runClearsSessions then [] else ms.st.tls
            quic := if TLX.Gen.runClearsQuicSessions then [] else ms.st.quic } }

/-- main.py:194-288 on the module state it finds: port map, `server_ports.extend(...)`, `keylog.extend(file keys)`,
    the loop, the concatenation. An error is the ValueError/IndexError of a malformed `-m`/`-p` value. -/
def body (TM : TlsMachine κ σ ο) (QM : QuicMachine κ τ ο) (ms : ModState κ σ τ) (a : Args) (inp : Inputs κ) :
    Except Options.Err (ModState κ σ τ × List ο) :=
  match Options.getPortMap Options.Src.bare a.mArg with
  | .error e => .error e
  | .ok pm =>
    match Options.serverPorts ms.serverPorts Options.Src.pDefault a.pArg with
    | .error e => .error e
    | .ok ports =>
      let o : Opts := ⟨ports, a.checksumTest, a.greasy, a.metadata, Options.keepOriginalPorts a.mArg, pm⟩
      let st0 : State κ σ τ := { ms.st with keylog := ms.st.keylog ++ inp.fileKeys.getD [] }
      let st := runItems TM QM o st0 inp.items
      .ok (⟨ports, st⟩, exportAll TM QM o st)

/-- `run()` called in an interpreter whose module state is `prior` -/
def runFrom (TM : TlsMachine κ σ ο) (QM : QuicMachine κ τ ο) (prior : ModState κ σ τ) (a : Args) (inp : Inputs κ) :
    Except Options.Err (ModState κ σ τ × List ο) :=
  body TM QM (reset prior) a inp

/-- `run()` as it was before the reset lines were added -/
def runFromLegacy (TM : TlsMachine κ σ ο) (QM : QuicMachine κ τ ο) (prior : ModState κ σ τ) (a : Args) (inp : Inputs κ) :
    Except Options.Err (ModState κ σ τ × List ο) :=
  body TM QM prior a inp

/-- module state of a fresh interpreter (main.py:23-26) -/
def freshState : ModState κ σ τ := ⟨Options.Src.builtin, ⟨[], [], []⟩⟩

end Run

/-! ### recording machines (used by the driver and by the concrete witnesses in `Props/`) -/

namespace Rec

/-- a TLS session that remembers the tags of the packets it was given -/
def tls : TlsMachine Nat (List Nat) (Nat × Nat) where
  new := fun _ p => [p.tag]
  feed := fun s p => s ++ [p.tag]
  out := fun s kl => s.map fun t => (t, kl.length)

structure QState where
  log : List (Nat × Bytes × Version × Nat)      -- (tag, dcid argument, version argument, keys in the key log at that moment)
  cc : List Bytes
  sc : List Bytes
  deriving DecidableEq, Repr

def addCid (l : List Bytes) (c : Bytes) : List Bytes := if c ∈ l then l else l ++ [c]

/-- a QUIC session that remembers its calls and whose CID sets grow by a script: `script tag` = (CIDs added to `client_cids`,
    CIDs added to `server_cids`) when the packet `tag` has been handled -/
def quic (script : Nat → List Bytes × List Bytes) : QuicMachine Nat QState (Nat × Nat) where
  new := fun _ _ => ⟨[], [], []⟩
  feed := fun s kl p dcid v =>
    ⟨s.log ++ [(p.tag, dcid, v, kl.length)], (script p.tag).1.foldl addCid s.cc, (script p.tag).2.foldl addCid s.sc⟩
  clientCids := fun s => s.cc
  serverCids := fun s => s.sc
  out := fun _ s => s.log.map fun e => (e.1, e.2.2.2)

end Rec

end TLX.MainLoop
