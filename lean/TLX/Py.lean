/-
Python-semantics prelude shared by all models (core Lean only).
`Bytes = List UInt8`; slices clamp as Python's do; indexing is an explicit `Option`.
-/
namespace TLX

abbrev Bytes := List UInt8

namespace Bytes

/-- `b[i:j]` (both non-negative): clamps, never raises. -/
def slice (b : Bytes) (i j : Nat) : Bytes := (b.drop i).take (j - i)

/-- `b[:-n]` with Python's trap: `b[:-0]` is `b[:0] = b""`. -/
def cutEnd (b : Bytes) (n : Nat) : Bytes := if n = 0 then [] else b.take (b.length - n)

/-- `int.from_bytes(b, "big")`. -/
def beNat (b : Bytes) : Nat := b.foldl (fun acc x => acc * 256 + x.toNat) 0

/-- `n.to_bytes(len, "big")` for `n < 256^len` (callers check the range: Python raises otherwise). -/
def ofNatBE : (len : Nat) → Nat → Bytes
  | 0, _ => []
  | len + 1, n => ofNatBE len (n / 256) ++ [UInt8.ofNat (n % 256)]

def hexDigit (n : Nat) : Char :=
  if n < 10 then Char.ofNat (48 + n) else Char.ofNat (87 + n)

def toHex (b : Bytes) : String :=
  if b.isEmpty then "-" else
  String.ofList (b.flatMap fun x => [hexDigit (x.toNat / 16), hexDigit (x.toNat % 16)])

def hexVal (c : Char) : Option Nat :=
  if '0' ≤ c ∧ c ≤ '9' then some (c.toNat - 48)
  else if 'a' ≤ c ∧ c ≤ 'f' then some (c.toNat - 87)
  else if 'A' ≤ c ∧ c ≤ 'F' then some (c.toNat - 55)
  else none

def ofHexChars : List Char → Option Bytes
  | [] => some []
  | [_] => none
  | a :: b :: rest => do
    let x ← hexVal a
    let y ← hexVal b
    let r ← ofHexChars rest
    pure (UInt8.ofNat (x * 16 + y) :: r)

/-- Parse the line-protocol encoding of a byte string (`-` is the empty string). -/
def ofHex (s : String) : Option Bytes :=
  if s = "-" then some [] else ofHexChars s.toList

end Bytes
end TLX
