/-
Model of what `tlexport/packet.py` `Packet.__init__` obtains from dpkt 1.9.8 for one captured frame
(`dpkt.ethernet.Ethernet(buf)` and the attribute reads that follow).  Core Lean only (linked into `tlxdriver`).

source (dpkt 1.9.8)                                         model
----------------------------------------------------------  ---------------------------------------------------
dpkt.py      Packet.__init__ / Packet.unpack                `need` (frame budget), the `needData` / `unpack` results
                (struct.error → NeedData if the buffer is shorter than the header, else UnpackError)
ethernet.py  Ethernet.__init__ (incl. the SECOND `_unpack_data` `ethLayer`, `secondPass`
                pass when `self.data` is still non-empty bytes)
ethernet.py  Ethernet.unpack (Ethernet II / Cisco ISL /      `ethUnpack`
                Novell raw / type 0 / 802.3+LLC)
ethernet.py  Ethernet._unpack_data (≤ 2 VLAN tags per pass,  `unpackData`, `vlanTags`, `mplsLabels`, `mplsGuess`
                ≤ 24 MPLS labels, the 0x45 / 0x6? heuristics, pseudowire)
llc.py       LLC.unpack                                     `llcLayer`
ip.py        IP.unpack                                      `ip4Layer`, `ip4Payload`, `ip4View`
ip6.py       IP6.unpack and the six extension header classes `ip6Layer`, `extWalk`, `optsWalk`, `ip6View`
tcp.py / udp.py                                             `tcpOk`, `tcpView`, `udpView`
gre.py, ah.py, icmp.py, icmp6.py, ppp.py, pppoe.py, cdp.py  `greLayer`, `ahLayer`, `icmpLayer`, `icmp6Layer`, `pppLayer`,
                                                            `pppoeLayer`, `cdpLayer` — only their EXCEPTION behaviour
arp, edp, ipx, stp, igmp, esp, ospf, pim, vrrp, sctp, dtp,  `flat` (header length; everything they raise is an UnpackError
aoe (+ aoeata, aoecfg)                                       caught by the caller)
packet.py:17-60  Packet.__init__                            `dissectD`, `dissect`

What the tool observes: an exception leaving `Ethernet(buf)` (nothing in tlexport catches it: the run aborts), or
`ethernet.data` being an `IP` / `IP6` instance or anything else, and for IP the MACs, addresses, `ip.data` being `TCP` /
`UDP` / anything else, ports, seq/ack, `tcp.data` / `udp.data`, and — for the checksum functions — `ip.p` and
`bytes(packet.tcp)` / `bytes(packet.udp)` (= the transport bytes dpkt was given: header, options and data re-serialise to
themselves).

dpkt behaviours mirrored (all measured on the installed library, see harness/ib_ingest.py):
* frame < 14 bytes → NeedData.  The IPv4 version nibble is never looked at.  `hl < 5` → UnpackError (caught: `ethernet.data`
  stays bytes).  `ip.data` is parsed from `buf[hl*4 : ip.len]` (an Ethernet trailer is cut off; `ip.len == 0` means "to the end
  of the frame"; `ip.len` larger than the frame: what is there; `ip.len < hl*4`: empty).  Only the fragment OFFSET decides
  (`offset ≠ 0` → raw bytes); a first fragment (MF set, offset 0) is parsed like a whole datagram.
* IPv6: `buf[40 : 40 + plen]` (`plen == 0`: to the end); the chain hop-by-hop / routing / fragment / AH / ESP / dest-opts is
  walked; a header that does not fit makes the WHOLE IPv6 packet "not IP" (NeedData caught by Ethernet); ESP swallows the rest and
  ends the chain without an upper-layer protocol; only when the FIRST extension header is a fragment header is the offset
  looked at — and then on the LAST header walked: `AttributeError` if that is not a fragment header (escapes).
* TCP: `tcp.data = buf[off*4:]` (`off < 5` → not TCP; options clamp).  UDP: `udp.data = buf[8:]`, `ulen` is ignored.
* 802.1Q / 802.1ad / 0x9100 / 0x9200: up to two tags per `_unpack_data` pass and there are up to two passes; MPLS: up to 24
  labels, then a guess from the first payload byte (`buf[0]` of an empty buffer: IndexError, escapes).
* type ≤ 1500: ISL by destination MAC (26 bytes stripped, parsed again), `ff ff` → Novell raw IPX, 0 → bytes, else LLC:
  these constructor calls are NOT inside a `try` — NeedData / UnpackError escape.
* `RecursionError`: every nested constructor costs Python frames; the budget `lim - base` is a parameter (`dissectD`).  The
  frame counts per class were read off the source; the boundary was measured for pure TEB / IP-in-IP / ISL / AH chains.
* `PackError`: CDP re-serialises every TLV while parsing; a TLV with length field 0 over more than 65535 remaining bytes.

Not modelled: `MemoryError`; the attribute values of the non-IP classes (nothing reads them).
-/
import TLX.Py
namespace TLX.Dissect
open TLX

/-! ### results -/

/-- the exception classes that can leave `dpkt.ethernet.Ethernet(buf)` -/
inductive DErr
  | needData    -- dpkt.NeedData
  | unpack      -- dpkt.UnpackError (not NeedData)
  | index       -- IndexError
  | attribute   -- AttributeError
  | pack        -- dpkt.PackError
  | recursion   -- RecursionError
  deriving DecidableEq, Repr

def DErr.name : DErr → String
  | .needData => "needdata" | .unpack => "unpack" | .index => "index" | .attribute => "attribute"
  | .pack => "pack" | .recursion => "recursion"

/-- `except (KeyError, dpkt.UnpackError)`: NeedData is a subclass of UnpackError -/
def DErr.caught : DErr → Bool
  | .needData | .unpack => true
  | _ => false

inductive Transport
  | tcp (sport dport seq ack : Nat) (payload : Bytes)
  | udp (sport dport : Nat) (payload : Bytes)
  | other
  deriving DecidableEq, Repr

/-- the attributes `Packet.__init__` sets when `ethernet.data` is an `IP` / `IP6` instance -/
structure IpPkt where
  v6 : Bool
  srcMac : Bytes
  dstMac : Bytes
  src : Bytes
  dst : Bytes
  /-- `packet.ip.p` (IPv6: the protocol behind the extension headers; 0 when dpkt leaves it unset) -/
  p : Nat
  /-- the bytes dpkt parsed `ip.data` from (= `bytes(packet.tcp)` / `bytes(packet.udp)` when it is one) -/
  seg : Bytes
  l4 : Transport
  deriving DecidableEq, Repr

inductive Dissected
  | notIp                -- `tcp_packet = False`, `udp_packet = False`, nothing else set
  | ip (x : IpPkt)
  deriving DecidableEq, Repr

/-! ### byte access -/

def u8 (b : Bytes) (i : Nat) : Nat := (b[i]?.map UInt8.toNat).getD 0
def u16 (b : Bytes) (i : Nat) : Nat := Bytes.beNat (b.slice i (i + 2))
def u32 (b : Bytes) (i : Nat) : Nat := Bytes.beNat (b.slice i (i + 4))

/-- `sys.getrecursionlimit()` -/
def pyLimit : Nat := 1000

/-- CPython 3.12 also limits the recursion of its C stack (`C_RECURSION_LIMIT`); a constructor call costs 3 units,
    5 for a class with its own `__init__` (measured: pure IP-in-IP, GRE, ICMP, PPP, PPPoE chains end there) -/
def cLimit : Nat := 1500

/-- how deep the interpreter is: Python frames and C recursion units -/
structure Dep where
  py : Nat
  c : Nat
  deriving DecidableEq, Repr

instance : HAdd Dep Nat Dep := ⟨fun d k => ⟨d.py + k, d.c⟩⟩

@[simp] theorem Dep.add_py (d : Dep) (k : Nat) : (d + k).py = d.py + k := rfl
@[simp] theorem Dep.add_c (d : Dep) (k : Nat) : (d + k).c = d.c := rfl

/-- a Python frame at depth `x` must fit under the recursion limit -/
def need (x : Dep) : Except DErr Unit := if x.py > pyLimit then .error .recursion else .ok ()

/-- entering a constructor that costs `k` C recursion units -/
def Dep.enter (d : Dep) (k : Nat) : Except DErr Dep :=
  if d.c + k > cLimit then .error .recursion else .ok ⟨d.py, d.c + k⟩

/-! ### the classes -/

inductive Layer
  | eth                         -- Ethernet(buf)                      (TEB, pseudowire)
  | ethInner                    -- self.unpack(buf) after an ISL header
  | ip4 | ip6 | tcp | udp
  | llc | gre | ah | icmp | icmp6 | ppp | pppoe | cdp
  | flat (k hdr : Nat)          -- header only: `k` frames deep, `hdr` bytes needed
  deriving DecidableEq, Repr

/-- `Ethernet._typesw` -/
def typesw (t : Nat) : Option Layer :=
  if t = 0x00bb then some (.flat 2 16)         -- EDP
  else if t = 0x0800 then some .ip4
  else if t = 0x0806 then some (.flat 2 28)    -- ARP
  else if t = 0x2000 then some .cdp
  else if t = 0x2004 then some (.flat 3 1)     -- DTP
  else if t = 0x6558 then some .eth            -- TEB
  else if t = 0x8137 then some (.flat 2 30)    -- IPX
  else if t = 0x86dd then some .ip6
  else if t = 0x880b then some .ppp
  else if t = 0x8864 then some .pppoe
  else if t = 0x88a2 then some (.flat 4 10)    -- AOE
  else none

/-- `IP._protosw` (shared with IP6) -/
def protosw (p : Nat) : Option Layer :=
  if p = 0 ∨ p = 4 then some .ip4
  else if p = 1 then some .icmp
  else if p = 2 then some (.flat 2 8)          -- IGMP
  else if p = 6 then some .tcp
  else if p = 17 then some .udp
  else if p = 41 then some .ip6
  else if p = 47 then some .gre
  else if p = 50 then some (.flat 2 8)         -- ESP
  else if p = 51 then some .ah
  else if p = 58 then some .icmp6
  else if p = 89 then some (.flat 2 24)        -- OSPF
  else if p = 103 then some (.flat 2 4)        -- PIM
  else if p = 112 then some (.flat 3 8)        -- VRRP
  else if p = 118 then some (.flat 2 35)       -- STP
  else if p = 132 then some (.flat 5 12)       -- SCTP
  else none

/-- what `ethernet.data` is -/
inductive EData
  | raw (b : Bytes)      -- still bytes
  | ip4 (b : Bytes)      -- an `IP` instance parsed from `b`
  | ip6 (b : Bytes)      -- an `IP6` instance parsed from `b`
  | obj                  -- an instance of any other class
  deriving DecidableEq, Repr

/-- the state of an `Ethernet` object after `unpack` -/
structure ERes where
  dst : Bytes := []
  src : Bytes := []
  ty : Nat := 0
  nt : Option Nat := none     -- `_next_type`
  data : EData := .obj
  deriving DecidableEq, Repr

abbrev Rec := Dep → Layer → Bytes → Except DErr ERes

/-- `try: X(buf) … except (KeyError, dpkt.UnpackError)`: `true` = an instance was made -/
def guarded (r : Except DErr ERes) : Except DErr Bool :=
  match r with
  | .ok _ => .ok true
  | .error e => if e.caught then .ok false else .error e

/-- dispatch through a table inside such a `try` -/
def tryLayer (rec : Rec) (d : Dep) (l : Option Layer) (buf : Bytes) : Except DErr Bool :=
  match l with
  | none => .ok false                       -- KeyError
  | some l => guarded (rec d l buf)

/-! ### TCP / UDP -/

/-- `TCP(buf)` succeeds -/
def tcpOk (buf : Bytes) : Except DErr Unit :=
  if buf.length < 20 then .error .needData
  else if (u8 buf 12 / 16) * 4 < 20 then .error .unpack        -- 'invalid header length'
  else .ok ()

def tcpView (buf : Bytes) : Transport :=
  .tcp (u16 buf 0) (u16 buf 2) (u32 buf 4) (u32 buf 8) (buf.drop ((u8 buf 12 / 16) * 4))

def udpView (buf : Bytes) : Transport := .udp (u16 buf 0) (u16 buf 2) (buf.drop 8)

/-! ### IPv4 -/

/-- the buffer `IP.unpack` hands to the next layer; `buf` has at least 20 bytes and `hl ≥ 5` -/
def ip4Payload (buf : Bytes) : Bytes :=
  let hl4 := (u8 buf 0 % 16) * 4
  let tot := u16 buf 2
  if tot ≠ 0 then buf.slice hl4 tot else buf.drop hl4

/-- `ip.offset` -/
def ip4Offset (buf : Bytes) : Nat := u16 buf 6 % 8192

def ip4Layer (rec : Rec) (d : Dep) (buf : Bytes) : Except DErr ERes := do
  need (d + 4)
  if buf.length < 20 then .error .needData
  else if (u8 buf 0 % 16) * 4 < 20 then .error .unpack
  else
    if ip4Offset buf = 0 then
      let _ ← tryLayer rec (d + 3) (protosw (u8 buf 9)) (ip4Payload buf)
      pure {}
    else pure {}

/-! ### IPv6 -/

/-- the option loop of `IP6OptsHeader.unpack` over `data = buf[2:]`: `false` = IndexError (→ NeedData) -/
def optsWalk : Nat → Bytes → Nat → Nat → Bool
  | 0, _, _, _ => true
  | fuel + 1, data, lim, index =>
    if index < lim then
      match data[index]? with
      | none => false
      | some t =>
        if t = 0 then optsWalk fuel data lim (index + 1)
        else
          match data[index + 1]? with
          | none => false
          | some l => optsWalk fuel data lim (index + l.toNat + 2)
    else true

/-- one extension header class applied to `buf`: `(ext.length, ext.nxt or None, is a fragment header, frag_off)` -/
def extHdr (k : Nat) (buf : Bytes) : Except DErr (Nat × Option Nat × Bool × Nat) :=
  if k = 0 ∨ k = 60 then
    if buf.length < 2 then .error .needData
    else
      let length := (u8 buf 1 + 1) * 8
      if optsWalk length (buf.drop 2) (length - 2) 0 then .ok (length, some (u8 buf 0), false, 0)
      else .error .needData
  else if k = 43 then
    if buf.length < 8 then .error .needData else .ok (u8 buf 1 * 8 + 8, some (u8 buf 0), false, 0)
  else if k = 44 then
    if buf.length < 8 then .error .needData else .ok (8, some (u8 buf 0), true, u16 buf 2 / 8)
  else if k = 51 then
    if buf.length < 12 then .error .needData else .ok ((u8 buf 1 + 2) * 4, some (u8 buf 0), false, 0)
  else -- 50, ESP
    if buf.length < 8 then .error .needData else .ok (buf.length, none, false, 0)

def isExt (k : Nat) : Bool := k = 0 ∨ k = 43 ∨ k = 44 ∨ k = 51 ∨ k = 50 ∨ k = 60

structure Chain where
  /-- `next_ext_hdr` after the loop (`none`: the last header was ESP) -/
  nxt : Option Nat
  rest : Bytes
  /-- number of extension headers walked -/
  count : Nat
  lastIsFrag : Bool
  lastOff : Nat
  deriving DecidableEq, Repr

/-- `while next_ext_hdr in EXT_HDRS:` — one round needs ≥ 2 bytes and removes ≥ 8 (or all) of them -/
def extWalk : Nat → Nat → Bytes → Nat → Bool → Nat → Except DErr Chain
  | 0, nxt, buf, c, lf, lo => .ok ⟨some nxt, buf, c, lf, lo⟩
  | fuel + 1, nxt, buf, c, lf, lo =>
    if isExt nxt then
      match extHdr nxt buf with
      | .error e => .error e
      | .ok (len, n', isF, off) =>
        match n' with
        | none => .ok ⟨none, buf.drop len, c + 1, isF, off⟩
        | some n' => extWalk fuel n' (buf.drop len) (c + 1) isF off
    else .ok ⟨some nxt, buf, c, lf, lo⟩

/-- the buffer the extension-header walk starts from -/
def ip6Body (buf : Bytes) : Bytes :=
  let plen := u16 buf 4
  if plen ≠ 0 then (buf.drop 40).take plen else buf.drop 40

def ip6Chain (buf : Bytes) : Except DErr Chain :=
  extWalk ((ip6Body buf).length + 1) (u8 buf 6) (ip6Body buf) 0 false 0

def ip6Layer (rec : Rec) (d : Dep) (buf : Bytes) : Except DErr ERes := do
  need (d + 3)
  if buf.length < 40 then .error .needData
  else
    if isExt (u8 buf 6) then need (d + 5)
    let ch ← ip6Chain buf
    -- `if self.nxt == 44 and ext.frag_off > 0`
    if u8 buf 6 = 44 ∧ !ch.lastIsFrag then .error .attribute
    else if u8 buf 6 = 44 ∧ ch.lastOff > 0 then pure {}
    else
      match ch.nxt with
      | none => pure {}                                          -- `_protosw[None]`: KeyError
      | some p =>
        let _ ← tryLayer rec (d + 2) (protosw p) ch.rest
        pure {}

/-! ### the other nested classes (exception behaviour only) -/

def llcLayer (rec : Rec) (d : Dep) (buf : Bytes) : Except DErr ERes := do
  need (d + 3)
  if buf.length < 3 then .error .needData
  else
    let data := buf.drop 3
    if u8 buf 0 = 0xaa ∧ u8 buf 1 = 0xaa then
      if data.length < 5 then .error .unpack                     -- struct.error → 'invalid LLC'
      else
        let _ ← tryLayer rec (d + 2) (typesw (u16 data 3)) (data.drop 5)
        pure {}
    else if u8 buf 0 = 0x06 then do let _ ← rec (d + 2) .ip4 data; pure {}
    else if u8 buf 0 = 0x10 ∨ u8 buf 0 = 0xe0 then do let _ ← rec (d + 2) (.flat 2 30) data; pure {}
    else if u8 buf 0 = 0x42 then do let _ ← rec (d + 2) (.flat 2 35) data; pure {}
    else pure {}

/-- the `while True: sre = self.SRE(self.data)` loop: ends with an entry of length 0 or with NeedData -/
def sreWalk : Nat → Bytes → Except DErr Bytes
  | 0, _ => .error .needData
  | fuel + 1, data =>
    if data.length < 4 then .error .needData
    else
      let len := u8 data 3
      let rest := data.drop (4 + min len (data.length - 4))
      if len = 0 then .ok rest else sreWalk fuel rest

def greLayer (rec : Rec) (d : Dep) (buf : Bytes) : Except DErr ERes := do
  need (d + 4)
  if buf.length < 4 then .error .needData
  else
    let flags := u16 buf 0
    let bit := fun (m : Nat) => if flags &&& m ≠ 0 then 4 else 0
    let fmtlen := if flags % 8 = 0 then bit 0xC000 + bit 0x2000 + bit 0x1000 + bit 0x0080
                  else 4 + bit 0x1000 + bit 0x0080
    let data := buf.drop 4
    if data.length < fmtlen then .error .unpack
    else
      let data := data.drop fmtlen
      let data ← (if flags &&& 0x4000 ≠ 0 then do need (d + 5); sreWalk (data.length + 1) data else pure data)
      let _ ← tryLayer rec (d + 2) (typesw (u16 buf 2)) data
      pure {}

def ahLayer (rec : Rec) (d : Dep) (buf : Bytes) : Except DErr ERes := do
  need (d + 3)
  if buf.length < 12 then .error .needData
  else
    let _ ← tryLayer rec (d + 2) (protosw (u8 buf 0)) ((buf.drop 12).drop (4 * u8 buf 1 - 4))
    pure {}

/-- `ICMP.Quote` and subclasses / `ICMP6.Error` and subclasses: 4 bytes, then a whole IP / IP6 packet (not in a `try`) -/
def quoteLayer (rec : Rec) (d : Dep) (inner : Layer) (buf : Bytes) : Except DErr ERes := do
  let d ← d.enter 3
  need (d + 3)
  if buf.length < 4 then .error .needData
  else do let _ ← rec (d + 2) inner (buf.drop 4); pure {}

def icmpLayer (rec : Rec) (d : Dep) (buf : Bytes) : Except DErr ERes := do
  need (d + 3)
  if buf.length < 4 then .error .needData
  else
    let t := u8 buf 0
    if t = 3 ∨ t = 4 ∨ t = 5 ∨ t = 11 then
      let _ ← guarded (quoteLayer rec (d + 2) .ip4 (buf.drop 4)); pure {}
    else if t = 0 ∨ t = 8 then do need (d + 4); pure {}
    else pure {}

def icmp6Layer (rec : Rec) (d : Dep) (buf : Bytes) : Except DErr ERes := do
  need (d + 3)
  if buf.length < 4 then .error .needData
  else
    let t := u8 buf 0
    if t = 1 ∨ t = 2 ∨ t = 3 ∨ t = 4 then
      let _ ← guarded (quoteLayer rec (d + 2) .ip6 (buf.drop 4)); pure {}
    else if t = 128 ∨ t = 129 then do need (d + 4); pure {}
    else pure {}

/-- `PPP._protosw` -/
def pppsw (p : Nat) : Option Layer := if p = 0x21 then some .ip4 else if p = 0x57 then some .ip6 else none

def pppLayer (rec : Rec) (d : Dep) (buf : Bytes) : Except DErr ERes := do
  need (d + 3)
  if buf.length < 3 then .error .needData
  else if u8 buf 2 % 2 = 0 then
    if buf.length < 4 then .error .needData
    else do let _ ← tryLayer rec (d + 2) (pppsw (u16 buf 2)) (buf.drop 4); pure {}
  else do let _ ← tryLayer rec (d + 2) (pppsw (u8 buf 2)) (buf.drop 3); pure {}

/-- `pppoe.PPP(buf)` (one-byte header) -/
def pppoePpp (rec : Rec) (d : Dep) (buf : Bytes) : Except DErr ERes := do
  let d ← d.enter 3
  need (d + 3)
  if buf.length < 1 then .error .needData
  else if u8 buf 0 % 2 = 0 then
    if buf.length < 2 then .error .needData
    else do let _ ← tryLayer rec (d + 2) (pppsw (u16 buf 0)) (buf.drop 2); pure {}
  else do let _ ← tryLayer rec (d + 2) (pppsw (u8 buf 0)) (buf.drop 1); pure {}

def pppoeLayer (rec : Rec) (d : Dep) (buf : Bytes) : Except DErr ERes := do
  need (d + 3)
  if buf.length < 6 then .error .needData
  else if u8 buf 1 = 0 then do let _ ← guarded (pppoePpp rec (d + 2) (buf.drop 6)); pure {}
  else pure {}

/-- `data[:n]` for a possibly negative `n` -/
def pyTake (data : Bytes) (n : Int) : Bytes :=
  if n ≥ 0 then data.take n.toNat else data.take (data.length - (-n).toNat)

/-- the TLV loop of `CDP.unpack` (`bytes(tlv)` packs `len(tlv)` into 16 bits when the length field is 0) -/
def cdpWalk : Nat → Bytes → Except DErr Unit
  | 0, _ => .ok ()
  | fuel + 1, buf =>
    if buf.isEmpty then .ok ()
    else if buf.length < 4 then .error .needData
    else
      let h := if u16 buf 0 = 2 then 8 else 4
      if buf.length < h then .error .needData
      else
        let len := u16 buf 2
        if len = 0 then (if buf.length > 65535 then .error .pack else .ok ())
        else cdpWalk fuel (buf.drop (h + (pyTake (buf.drop h) ((len : Int) - h)).length))

def cdpLayer (d : Dep) (buf : Bytes) : Except DErr ERes := do
  need (d + 3)
  if buf.length < 4 then .error .needData
  else
    if buf.length > 4 then need (d + 5)
    cdpWalk (buf.length + 1) (buf.drop 4)
    pure {}

/-! ### Ethernet -/

def isQinq (t : Nat) : Bool := t = 0x8100 ∨ t = 0x88a8 ∨ t = 0x9100 ∨ t = 0x9200
def isMpls (t : Nat) : Bool := t = 0x8847 ∨ t = 0x8848

/-- `for _ in range(2): tag = VLANtag8021Q(buf) …`: the type of the last tag and the rest -/
def vlanTags (buf : Bytes) : Except DErr (Nat × Bytes) :=
  if buf.length < 4 then .error .needData
  else if u16 buf 2 ≠ 0x8100 then .ok (u16 buf 2, buf.drop 4)
  else if (buf.drop 4).length < 4 then .error .needData
  else .ok (u16 buf 6, buf.drop 8)

/-- `for i in range(24): lbl = MPLSlabel(buf) … if lbl.s: break` -/
def mplsLabels : Nat → Bytes → Except DErr Bytes
  | 0, buf => .ok buf
  | n + 1, buf =>
    if buf.length < 4 then .error .needData
    else if (u8 buf 2) % 2 = 1 then .ok (buf.drop 4) else mplsLabels n (buf.drop 4)

/-- "poor man's heuristics": the new `_next_type` (unchanged when nothing fits) and the buffer -/
def mplsGuess (nt : Nat) (buf : Bytes) : Except DErr (Nat × Bytes) :=
  match buf with
  | [] => .error .index                                       -- `buf[0]`
  | b0 :: _ =>
    if b0.toNat = 0x45 then .ok (0x0800, buf)
    else if b0.toNat / 16 = 6 then .ok (0x86dd, buf)
    else if buf.length ≥ 14 then .ok (0x6558, if u16 buf 0 = 0 then buf.drop 4 else buf)
    else .ok (nt, buf)

/-- `Ethernet._unpack_data(buf)` running in a frame at depth `d`; `ty` is `self.type`. -/
def unpackData (rec : Rec) (d : Dep) (nt : Option Nat) (ty : Nat) (buf : Bytes) :
    Except DErr (Option Nat × EData) := do
  let (nt, buf) ←
    (match nt with
     | none => pure (none, buf)
     | some t =>
       if isQinq t then do
         need (d + 3)
         let (t', b') ← vlanTags buf
         pure (some t', b')
       else if isMpls t then do
         need (d + 3)
         let b' ← mplsLabels 24 buf
         let (t', b'') ← mplsGuess t b'
         pure (some t', b'')
       else pure (some t, buf) : Except DErr (Option Nat × Bytes))
  -- `eth_type = self._next_type or self.type`
  let et := match nt with
    | none => ty
    | some t => if t = 0 then ty else t
  match typesw et with
  | none => pure (nt, .raw buf)
  | some l =>
    let made ← guarded (rec d l buf)
    if made then
      pure (nt, if l = .ip4 then .ip4 buf else if l = .ip6 then .ip6 buf else .obj)
    else pure (nt, .raw buf)

/-- `Ethernet.unpack(buf)` running in a frame at depth `u`. `top`: `buf` is the constructor's argument (a short
    header is then NeedData; after an ISL header it is 'invalid Ethernet', an UnpackError). -/
def ethUnpack (rec : Rec) (u : Dep) (top : Bool) (buf : Bytes) : Except DErr ERes := do
  need (u + 1)
  if buf.length < 14 then .error (if top then .needData else .unpack)
  else
    let dst := buf.take 6
    let src := buf.slice 6 12
    let ty := u16 buf 12
    let data := buf.drop 14
    if ty > 1500 then do
      let (nt, dt) ← unpackData rec (u + 1) (some ty) ty data
      pure ⟨dst, src, ty, nt, dt⟩
    else if dst.take 5 = [1, 0, 0x0c, 0, 0] ∨ dst.take 5 = [3, 0, 0x0c, 0, 0] then do
      need (u + 3)
      if buf.length < 26 then .error .needData
      else rec u .ethInner (buf.drop 26)
    else if data.take 2 = [0xff, 0xff] then do
      let _ ← rec u (.flat 2 30) (data.drop 2)                  -- Novell raw: IPX(self.data[2:])
      pure ⟨dst, src, 0x8137, none, .obj⟩
    else if ty = 0 then do
      let (nt, dt) ← unpackData rec (u + 1) none ty data
      pure ⟨dst, src, ty, nt, dt⟩
    else do
      let _ ← rec u .llc (data.take ty)
      pure ⟨dst, src, ty, none, .obj⟩

/-- `if self.data: if isinstance(self.data, bytes): self._unpack_data(self.data)` in `Ethernet.__init__` (frame depth `d`) -/
def secondPass (rec : Rec) (d : Dep) (r : ERes) : Except DErr ERes :=
  match r.data with
  | .raw b =>
    if b.isEmpty then .ok r
    else do
      let (nt, dt) ← unpackData rec (d + 1) r.nt r.ty b
      pure { r with nt := nt, data := dt }
  | _ => .ok r

def ethLayer (rec : Rec) (d : Dep) (buf : Bytes) : Except DErr ERes := do
  let r ← ethUnpack rec (d + 3) true buf
  secondPass rec (d + 1) r

/-! ### tying the knot -/

def body (rec : Rec) (d : Dep) (l : Layer) (buf : Bytes) : Except DErr ERes :=
  match l with
  | .eth => ethLayer rec d buf
  | .ethInner => ethUnpack rec (d + 1) false buf
  | .ip4 => ip4Layer rec d buf
  | .ip6 => ip6Layer rec d buf
  | .tcp => do need (d + 3); tcpOk buf; pure {}
  | .udp => do need (d + 2); if buf.length < 8 then .error .needData else pure {}
  | .llc => llcLayer rec d buf
  | .gre => greLayer rec d buf
  | .ah => ahLayer rec d buf
  | .icmp => icmpLayer rec d buf
  | .icmp6 => icmp6Layer rec d buf
  | .ppp => pppLayer rec d buf
  | .pppoe => pppoeLayer rec d buf
  | .cdp => cdpLayer d buf
  | .flat k hdr => do need (d + k); if buf.length < hdr then .error .needData else pure {}

/-- C recursion units of a constructor call (`ethInner` is a plain method call) -/
def Layer.cUnits : Layer → Nat
  | .eth | .ip4 => 5
  | .ethInner => 0
  | _ => 3

/-- every nested call gets a strictly shorter buffer, so fuel `buf.length + 2` is never exhausted -/
def parse : Nat → Rec
  | 0, _, _, _ => .error .recursion
  | fuel + 1, d, l, buf =>
    match d.enter l.cUnits with
    | .error e => .error e
    | .ok d => body (parse fuel) d l buf

/-! ### what `Packet.__init__` reads -/

def ip4View (dstMac srcMac buf : Bytes) : IpPkt :=
  let seg := ip4Payload buf
  let p := u8 buf 9
  let l4 :=
    if ip4Offset buf ≠ 0 then Transport.other
    else if p = 6 then (match tcpOk seg with | .ok _ => tcpView seg | .error _ => .other)
    else if p = 17 then (if seg.length < 8 then .other else udpView seg)
    else .other
  ⟨false, srcMac, dstMac, buf.slice 12 16, buf.slice 16 20, p, seg, l4⟩

def ip6View (dstMac srcMac buf : Bytes) : IpPkt :=
  let src := buf.slice 8 24
  let dst := buf.slice 24 40
  match ip6Chain buf with
  | .error _ => ⟨true, srcMac, dstMac, src, dst, 0, [], .other⟩       -- unreachable after a successful parse
  | .ok ch =>
    let p := ch.nxt.getD 0
    let l4 :=
      if u8 buf 6 = 44 ∧ ch.lastOff > 0 then Transport.other
      else if ch.nxt = some 6 then (match tcpOk ch.rest with | .ok _ => tcpView ch.rest | .error _ => .other)
      else if ch.nxt = some 17 then (if ch.rest.length < 8 then .other else udpView ch.rest)
      else .other
    ⟨true, srcMac, dstMac, src, dst, p, ch.rest, l4⟩

/-- `Packet(buf, ts)` called from a Python frame at depth `base`: `Ethernet(self.binary)` runs in `Packet.__init__`. -/
def dissectD (base : Dep) (buf : Bytes) : Except DErr Dissected :=
  match parse (buf.length + 2) (base + 1) .eth buf with
  | .error e => .error e
  | .ok r =>
    match r.data with
    | .ip4 b => .ok (.ip (ip4View r.dst r.src b))
    | .ip6 b => .ok (.ip (ip6View r.dst r.src b))
    | _ => .ok .notIp

/-- depth of the frame of `run()` when the tool is started as `python -m tlexport` / by its console script
    (`<module>` → `main()` → `run()`; runpy adds two more) — the budget only matters for > 200 nested headers -/
def defaultBase : Dep := ⟨4, 5⟩

def dissect (buf : Bytes) : Except DErr Dissected := dissectD defaultBase buf

end TLX.Dissect
