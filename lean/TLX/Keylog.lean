/-
Model of the key-log handling of TLExport (C09). Core Lean only (linked into `tlxdriver`).

Python `str` is a list of code points (`Str = List Nat`); only the ASCII behaviour of `str.lower`
and `bytes.fromhex` is modelled (key-log text is decoded with `ascii` for DSBs; what the regular
expression lets through in the two fields that are lower-cased / hex-decoded is ASCII anyway).

source                                                     model
---------------------------------------------------------  -------------------------------------------
keylog_reader.py:23-33  get_keys_from_string               `getKeysFromString` (`\r` removal, split at `\n`)
keylog_reader.py:15-20  get_key_from_line, the pattern      `accepts` (prefix recogniser = `re.match`), `getKeyFromLine`
keylog_reader.py:6-12   Key.__init__ (`split(" ")`)        `keyOfLine`
keylog_reader.py:36-43  read_keylog_from_file               `universalNewlines` (text-mode `open`), `loadKeylog`
main.py:47-48,198-202,217-219  -s default, file ++ DSBs     `loadKeylog`
session.py:80-108       find_session_secrets                `findSessionSecrets` (case-folded compare)
session.py:131-193      generate_keys, TLS ≤ 1.2 selection  `installed12`
key_derivator.py:133-163 dev_tls_13_keys label loop         `scan`, `installed13`
quic_session.py:435-442 QUIC key selection                  `quicSessionKeys`
quic_key_generation.py:30-86 dev_quic_keys label loop       `scan`, `installedQuic`

Two places are parameters of the model (`Cfg`) because the check found the unchanged code
violating C09 there; the repaired code is `Cfg.repaired`, the code as found is `Cfg.original`:
* `HexClass.lower` — the pattern accepts `[a-f]|[0-9]` only (upper-case client random rejected);
  `HexClass.any` — `[a-fA-F]|[0-9]`. Which one the *current* source has is read off the pattern
  string regenerated into `TLX/Gen/Consts.lean` (`TLX/KeylogSrc.lean`: `srcHexClass`).
* `Sel12.first` — TLS ≤ 1.2 takes `secret_list[0]`, the first line with the session's client
  random whatever its label; `Sel12.firstMaster` — the first such line labelled CLIENT_RANDOM or RSA.

Not modelled: `re` itself (the recogniser is hand-written and compared with `re.match` on every
run), text decoding errors (non-ASCII input), HKDF/PRF (the lookups deliver the *secrets*; what is
derived from them is C15), logging.
-/
namespace TLX.Keylog

/-- Python `str` as code points. -/
abbrev Str := List Nat

/-! ### `str.split(sep)` for a one-character separator, `str.replace("\r", "")` -/

def consHead (c : Nat) : List Str → List Str
  | [] => [[c]]
  | h :: t => (c :: h) :: t

/-- `s.split(chr(sep))`: never the empty list; `"".split(x) = [""]`. -/
def splitOn (sep : Nat) : Str → List Str
  | [] => [[]]
  | c :: cs => if c = sep then [] :: splitOn sep cs else consHead c (splitOn sep cs)

/-- `key_str.replace("\r", "")`. -/
def removeCR (s : Str) : Str := s.filter (· ≠ 13)

/-! ### the regular expression `([A-Z]|\_|0){3,32} (H){64} (H)*` under `re.match` -/

/-- `[A-Z]|\_|0` — note the lone `0`: no other digit is a label character. -/
def isLabelChar (c : Nat) : Bool := (65 ≤ c && c ≤ 90) || c == 95 || c == 48

def hexLower (c : Nat) : Bool := (97 ≤ c && c ≤ 102) || (48 ≤ c && c ≤ 57)
def hexUpper (c : Nat) : Bool := 65 ≤ c && c ≤ 70

/-- The class `H` of the two hex fields in the pattern. -/
inductive HexClass | lower | any
  deriving DecidableEq, Repr

def HexClass.ok : HexClass → Nat → Bool
  | .lower, c => hexLower c
  | .any, c => hexLower c || hexUpper c

/-- `reg.match(line) is not None`. `re.match` anchors at the start only. The bounded repetition is
    followed by a literal space, which is not a label character, so backtracking can only succeed
    with the repetition covering the whole maximal run of label characters: that run must be 3–32
    long and be followed by a space; then exactly 64 characters of `H`, then a space. The trailing
    `(H)*` matches the empty string, so whatever follows the second space is unconstrained. -/
def accepts (hc : HexClass) (line : Str) : Bool :=
  let n := (line.takeWhile isLabelChar).length
  3 ≤ n && n ≤ 32 &&
  match line.dropWhile isLabelChar with
  | 32 :: r => (r.take 64).length == 64 && (r.take 64).all hc.ok && (r.drop 64).head? == some 32
  | _ => false

/-- The pattern strings this model knows (ASCII). -/
def patLower : List Nat :=  -- ([A-Z]|\_|0){3,32} ([a-f]|[0-9]){64} ([a-f]|[0-9])*
  [40, 91, 65, 45, 90, 93, 124, 92, 95, 124, 48, 41, 123, 51, 44, 51, 50, 125, 32,
   40, 91, 97, 45, 102, 93, 124, 91, 48, 45, 57, 93, 41, 123, 54, 52, 125, 32,
   40, 91, 97, 45, 102, 93, 124, 91, 48, 45, 57, 93, 41, 42]
def patAny : List Nat :=    -- ([A-Z]|\_|0){3,32} ([a-fA-F]|[0-9]){64} ([a-fA-F]|[0-9])*
  [40, 91, 65, 45, 90, 93, 124, 92, 95, 124, 48, 41, 123, 51, 44, 51, 50, 125, 32,
   40, 91, 97, 45, 102, 65, 45, 70, 93, 124, 91, 48, 45, 57, 93, 41, 123, 54, 52, 125, 32,
   40, 91, 97, 45, 102, 65, 45, 70, 93, 124, 91, 48, 45, 57, 93, 41, 42]

/-- The hex class of a pattern string, if it is one of the two known patterns. -/
def classOfPattern (p : List Nat) : Option HexClass :=
  if p = patAny then some .any else if p = patLower then some .lower else none

/-! ### `Key`, `get_key_from_line`, `get_keys_from_string` -/

structure Key where
  label : Str
  clientRandom : Str
  value : Str
  deriving DecidableEq, Repr

/-- `Key(line)`: `split = line.split(" ")`, fields 0, 1, 2 (further fields are dropped).
    `none` is the `IndexError` for fewer than three fields — unreachable after a match
    (`TLX.Lemmas.Keylog.keyOfLine_of_accepts`). -/
def keyOfLine (line : Str) : Option Key :=
  match splitOn 32 line with
  | l :: c :: v :: _ => some ⟨l, c, v⟩
  | _ => none

def getKeyFromLine (hc : HexClass) (line : Str) : Option Key :=
  if accepts hc line then keyOfLine line else none

def getKeysFromString (hc : HexClass) (s : Str) : List Key :=
  (splitOn 10 (removeCR s)).filterMap (getKeyFromLine hc)

/-! ### where the keys come from: `-s` file and decryption-secrets blocks -/

/-- `open(path, "r").read()`: universal newlines turn `\r\n` and a lone `\r` into `\n`. -/
def universalNewlines : Str → Str
  | [] => []
  | 13 :: 10 :: r => 10 :: universalNewlines r
  | 13 :: r => 10 :: universalNewlines r
  | c :: r => c :: universalNewlines r

/-- How `run()` ends as far as the key list is concerned. `exit`: `read_keylog_from_file` called
    `exit()` — the program ends without writing any output; `needData`: `Packet(buf, ts)` was built
    from the payload of a DSB shorter than an Ethernet header (dpkt raises `NeedData`). -/
inductive Load | keys (ks : List Key) | exit | needData
  deriving DecidableEq, Repr

/-- The global `keylog` list of `run()` once the capture has been read: keys of the `-s` file
    (given on the command line, else the argparse default `sDefault`, `None` = no file) followed by
    the keys of every DSB in encounter order. `fs p` is the content of the file `p` as seen from the
    working directory (`none`: no such file). `packetFirst`: the loop builds `Packet(buf, ts)` before
    it looks at `ts == -1` (code as found), so a DSB payload of fewer than 14 bytes aborts the run. -/
def loadKeylog (hc : HexClass) (packetFirst : Bool) (sDefault sArg : Option Str)
    (fs : Str → Option Str) (dsbs : List Str) : Load :=
  match sArg.orElse (fun _ => sDefault) with
  | none => fromDsbs []
  | some p =>
    match fs p with
    | none => .exit
    | some t => fromDsbs (getKeysFromString hc (universalNewlines t))
where
  fromDsbs (fileKeys : List Key) : Load :=
    if packetFirst && dsbs.any (fun d => d.length < 14) then .needData
    else .keys (fileKeys ++ dsbs.flatMap (getKeysFromString hc))

/-! ### `str.lower`, `bytes.hex`, `bytes.fromhex` (ASCII) -/

def lower (s : Str) : Str := s.map fun c => if 65 ≤ c ∧ c ≤ 90 then c + 32 else c

def hexDigit (n : Nat) : Nat := if n < 10 then 48 + n else 87 + n

/-- `b.hex()` (bytes as `List Nat`, each `< 256`). -/
def hexOf : List Nat → Str
  | [] => []
  | b :: r => hexDigit (b / 16) :: hexDigit (b % 16) :: hexOf r

def hexVal (c : Nat) : Option Nat :=
  if 48 ≤ c ∧ c ≤ 57 then some (c - 48)
  else if 97 ≤ c ∧ c ≤ 102 then some (c - 87)
  else if 65 ≤ c ∧ c ≤ 70 then some (c - 55)
  else none

/-- ASCII whitespace as `bytes.fromhex` skips it between byte pairs: space, `\t \n \v \f \r`. -/
def isWs (c : Nat) : Bool := c == 32 || (9 ≤ c && c ≤ 13)

/-- `bytes.fromhex(s)`; `none` is the `ValueError`. Whitespace may stand before any pair (and at
    the end), not inside a pair. -/
def fromHex : Str → Option (List Nat)
  | [] => some []
  | [c] => if isWs c then some [] else none
  | c :: d :: r =>
    if isWs c then fromHex (d :: r)
    else
      match hexVal c, hexVal d, fromHex r with
      | some x, some y, some rest => some ((16 * x + y) :: rest)
      | _, _, _ => none

/-! ### the lookups that install secrets -/

/-- Outcome of a lookup. `valueError`: `bytes.fromhex` raised; `unbound`: a local variable that no
    key-log line assigned is read (`UnboundLocalError`); `missing`: "Missing Secrets" branch. -/
inductive Res (α : Type) | ok (a : α) | missing | valueError | unbound
  deriving DecidableEq, Repr

def s_CLIENT_RANDOM : Str := [67, 76, 73, 69, 78, 84, 95, 82, 65, 78, 68, 79, 77]
def s_RSA : Str := [82, 83, 65]
def s_CHTS : Str :=  -- CLIENT_HANDSHAKE_TRAFFIC_SECRET
  [67, 76, 73, 69, 78, 84, 95, 72, 65, 78, 68, 83, 72, 65, 75, 69, 95, 84, 82, 65, 70, 70, 73, 67, 95, 83, 69, 67, 82, 69, 84]
def s_SHTS : Str :=  -- SERVER_HANDSHAKE_TRAFFIC_SECRET
  [83, 69, 82, 86, 69, 82, 95, 72, 65, 78, 68, 83, 72, 65, 75, 69, 95, 84, 82, 65, 70, 70, 73, 67, 95, 83, 69, 67, 82, 69, 84]
def s_CTS0 : Str :=  -- CLIENT_TRAFFIC_SECRET_0
  [67, 76, 73, 69, 78, 84, 95, 84, 82, 65, 70, 70, 73, 67, 95, 83, 69, 67, 82, 69, 84, 95, 48]
def s_STS0 : Str :=  -- SERVER_TRAFFIC_SECRET_0
  [83, 69, 82, 86, 69, 82, 95, 84, 82, 65, 70, 70, 73, 67, 95, 83, 69, 67, 82, 69, 84, 95, 48]
def s_CETS : Str :=  -- CLIENT_EARLY_TRAFFIC_SECRET
  [67, 76, 73, 69, 78, 84, 95, 69, 65, 82, 76, 89, 95, 84, 82, 65, 70, 70, 73, 67, 95, 83, 69, 67, 82, 69, 84]
def s_SETS : Str :=  -- SERVER_EARLY_TRAFFIC_SECRET
  [83, 69, 82, 86, 69, 82, 95, 69, 65, 82, 76, 89, 95, 84, 82, 65, 70, 70, 73, 67, 95, 83, 69, 67, 82, 69, 84]

/-- `find_session_secrets`: `secret.client_random.lower() == self.client_random.hex().lower()`,
    every label, key-log order. -/
def findSessionSecrets (kl : List Key) (cr : List Nat) : List Key :=
  kl.filter fun k => lower k.clientRandom == lower (hexOf cr)

/-- How `generate_keys` picks the line for TLS ≤ 1.2. -/
inductive Sel12 | first | firstMaster
  deriving DecidableEq, Repr

/-- The master secret (`false`) or RSA pre-master secret (`true`) `generate_keys` hands to the
    key derivation for SSL 3.0 – TLS 1.2. -/
def installed12 (sel : Sel12) (kl : List Key) (cr : List Nat) : Res (Bool × List Nat) :=
  let secrets := findSessionSecrets kl cr
  let secrets := match sel with
    | .first => secrets
    | .firstMaster => secrets.filter fun k => k.label == s_CLIENT_RANDOM || k.label == s_RSA
  match secrets with
  | [] => .missing
  | k :: _ =>
    if k.label = s_CLIENT_RANDOM then
      match fromHex k.value with | some b => .ok (false, b) | none => .valueError
    else if k.label = s_RSA then
      match fromHex k.value with | some b => .ok (true, b) | none => .valueError
    else .unbound   -- `keys` was never assigned

/-- The loops `for secret in secret_list: if secret.label == L₁: x₁ = f(bytes.fromhex(secret.value))
    elif …`: per label the last line wins; the first undecodable value of a listed label raises. -/
def scan (labels : List Str) : List Key → (Str → Option (List Nat)) → Option (Str → Option (List Nat))
  | [], st => some st
  | k :: ks, st =>
    if labels.contains k.label then
      match fromHex k.value with
      | none => none
      | some b => scan labels ks (fun l => if l = k.label then some b else st l)
    else scan labels ks st

def labels13 : List Str := [s_CHTS, s_SHTS, s_CTS0, s_STS0]
def labelsQuic : List Str := [s_CHTS, s_SHTS, s_CTS0, s_STS0, s_CETS, s_SETS]

/-- `dev_tls_13_keys(find_session_secrets(), …)`: the four secrets in the order of `labels13`
    (all four default to `None`). -/
def installed13 (kl : List Key) (cr : List Nat) : Res (List (Option (List Nat))) :=
  match findSessionSecrets kl cr with
  | [] => .missing
  | secrets =>
    match scan labels13 secrets (fun _ => none) with
    | none => .valueError
    | some st => .ok (labels13.map st)

/-- `set_tls_decryptors`: `bytes.fromhex(key.client_random) == client_random` over the whole list. -/
def quicSessionKeys (kl : List Key) (cr : List Nat) : Option (List Key) :=
  if kl.all fun k => (fromHex k.clientRandom).isSome then
    some (kl.filter fun k => fromHex k.clientRandom == some cr)
  else none

/-- `dev_quic_keys(…)`: the six secrets in the order of `labelsQuic` (early secrets default to
    `None`; handshake and application secrets have no default). -/
def installedQuic (kl : List Key) (cr : List Nat) : Res (List (Option (List Nat))) :=
  match quicSessionKeys kl cr with
  | none => .valueError
  | some secrets =>
    match scan labelsQuic secrets (fun _ => none) with
    | none => .valueError
    | some st =>
      if (st s_CHTS).isNone || (st s_SHTS).isNone || (st s_CTS0).isNone || (st s_STS0).isNone
      then .unbound else .ok (labelsQuic.map st)

/-- The two places where the code as found and the repaired code differ. -/
structure Cfg where
  hex : HexClass
  sel12 : Sel12
  deriving DecidableEq, Repr

def Cfg.original : Cfg := ⟨.lower, .first⟩
def Cfg.repaired : Cfg := ⟨.any, .firstMaster⟩

/-- Everything a session with client random `cr` gets out of the key log, per protocol family. -/
structure Installed where
  tls12 : Res (Bool × List Nat)
  tls13 : Res (List (Option (List Nat)))
  quic : Res (List (Option (List Nat)))
  deriving DecidableEq, Repr

def installed (sel : Sel12) (kl : List Key) (cr : List Nat) : Installed :=
  ⟨installed12 sel kl cr, installed13 kl cr, installedQuic kl cr⟩

end TLX.Keylog
