/-
Model of TLExport's key derivation (C15), parametric in the hash algorithms (`Prims`).

Source mirrored (paths relative to the tree under test):
  tlexport/key_derivator.py
    prf_ssl_30 (214-233)            → `prfSsl30`
    prf_tls_10_11 (236-279)         → `prfTls1011`   (secret halving exactly as written)
    prf_tls_12 (282-304)            → `prfTls12`     (SHA-384 iff the suite's MAC is SHA384, else SHA-256)
    gen_master_secret_ssl_30/tls_10_11/tls_12 (175-217) → `genMasterSsl30`, `genMasterTls1011`, `genMasterTls12`
    dev_ssl_30_keys (10-39), dev_tls_10_11_keys (42-73) → `devSsl30Keys`, `devTls1011Keys` (IV table `ivLenLegacy`)
    dev_tls_12_keys (76-110)        → `devTls12Keys` (IV table `ivLenTls12`)
    dev_tls_13_keys (113-172)       → `devTls13Keys`
  tlexport/session.py  generate_keys (111-205) → `generateKeys` (which random goes where, lengths)
  tlexport/decryptor.py parse_keys (86-119), update_keys (447-463) → `parseKeys13`, `Installed`, `updateKeys`
  tlexport/quic/quic_key_generation.py
    make_info (176-178) → `makeInfo`;  dev_initial_keys (98-143) → `devInitialKeys`
    dev_quic_keys (13-95) → `devQuicKeys`;  key_update (146-173) → `keyUpdate`
  tlexport/quic/quic_session.py
    set_initial_decryptor (341-358) → `setInitialDecryptor`; set_tls_decryptors (403-471) → `setTlsDecryptors`
    check_key_epoch (178-191) → `checkKeyEpoch`

Conventions: a Python exception is `Except.error kind`; the `while len(block) < n` loops run with
fuel `n` (enough whenever the hash output is non-empty) and report `nonterm` otherwise - Python
would spin forever there, which no real hash can cause. Python `None` is `Option.none`.
The resolved cipher-suite parameters (`Suite`) are inputs: how a code point resolves is C14.

Not modelled: logging; `bytes.fromhex` of the key-log value (the model takes bytes); the
`cryptography` objects built from the keys (`Cipher(ARC4(key))`, `AESGCM(key)` - only the fact
that `ARC4(None)` / `bulk_cipher(None)` raise is used, in `generateKeys` and `setTlsDecryptors`; key-size
checks of those constructors are not: the table's key lengths are always valid for their cipher); header-protection mask
computation (`make_hp_mask`, `make_chacha_hp_mask`: one AES-ECB / ChaCha20 call on the hp key,
no derivation); QUIC v2 is modelled as written but no theorem is claimed for it.

Core Lean only (linked into `tlxdriver`).
-/
import TLX.Crypto.HashSuite
namespace TLX.KeySchedule
open TLX TLX.Crypto

inductive PyErr
  | index      -- IndexError: `sec_bits[counter - 1]`, `decryptor_n.keys[4]`, `secret_list[-1]`
  | unbound    -- UnboundLocalError: a local assigned only in a branch that was not taken
  | overflow   -- OverflowError: `int.to_bytes`
  | nonterm    -- a `while len(block) < n` loop that never terminates (empty hash output)
  | typeErr    -- TypeError: `ARC4(None)` in `Decryptor.__init__`
  deriving DecidableEq, Repr

abbrev R := Except PyErr

/-! ### byte-string constants of the source (as the bytes they are) -/

def bKeyExpansion : Bytes := [0x6b, 0x65, 0x79, 0x20, 0x65, 0x78, 0x70, 0x61, 0x6e, 0x73, 0x69, 0x6f, 0x6e]
def bMasterSecret : Bytes := [0x6d, 0x61, 0x73, 0x74, 0x65, 0x72, 0x20, 0x73, 0x65, 0x63, 0x72, 0x65, 0x74]
def bTls13 : Bytes := [0x74, 0x6c, 0x73, 0x31, 0x33, 0x20]
def bTls13Key : Bytes := [0x74, 0x6c, 0x73, 0x31, 0x33, 0x20, 0x6b, 0x65, 0x79]
def bTls13Iv : Bytes := [0x74, 0x6c, 0x73, 0x31, 0x33, 0x20, 0x69, 0x76]
def bQuicKey : Bytes := [0x71, 0x75, 0x69, 0x63, 0x20, 0x6b, 0x65, 0x79]
def bQuicIv : Bytes := [0x71, 0x75, 0x69, 0x63, 0x20, 0x69, 0x76]
def bQuicHp : Bytes := [0x71, 0x75, 0x69, 0x63, 0x20, 0x68, 0x70]
def bQuicKu : Bytes := [0x71, 0x75, 0x69, 0x63, 0x20, 0x6b, 0x75]
def bQuicV2Key : Bytes := [0x71, 0x75, 0x69, 0x63, 0x76, 0x32, 0x20, 0x6b, 0x65, 0x79]
def bQuicV2Iv : Bytes := [0x71, 0x75, 0x69, 0x63, 0x76, 0x32, 0x20, 0x69, 0x76]
def bQuicV2Hp : Bytes := [0x71, 0x75, 0x69, 0x63, 0x76, 0x32, 0x20, 0x68, 0x70]
def bClientIn : Bytes := [0x63, 0x6c, 0x69, 0x65, 0x6e, 0x74, 0x20, 0x69, 0x6e]
def bServerIn : Bytes := [0x73, 0x65, 0x72, 0x76, 0x65, 0x72, 0x20, 0x69, 0x6e]
/-- `sec_bits = 'ABCDEFGHIJ'` -/
def secBits : Bytes := [0x41, 0x42, 0x43, 0x44, 0x45, 0x46, 0x47, 0x48, 0x49, 0x4a]
/-- `bytes.fromhex("38762cf7f55934b34d179ae6a4c80cadccbb7f0a")` -/
def saltV1 : Bytes := [0x38, 0x76, 0x2c, 0xf7, 0xf5, 0x59, 0x34, 0xb3, 0x4d, 0x17, 0x9a, 0xe6, 0xa4, 0xc8, 0x0c, 0xad,
  0xcc, 0xbb, 0x7f, 0x0a]
/-- `bytes.fromhex("0dede3def700a6db819381be6e269dcbf9bd2ed9")` -/
def saltV2 : Bytes := [0x0d, 0xed, 0xe3, 0xde, 0xf7, 0x00, 0xa6, 0xdb, 0x81, 0x93, 0x81, 0xbe, 0x6e, 0x26, 0x9d, 0xcb,
  0xf9, 0xbd, 0x2e, 0xd9]

/-! ### the loop shape shared by all three PRFs -/

/-- `while len(block) < n: (state, out) = body(state); block = block + out`, then `block`.
    `fuel` bounds the iterations; running out of it is `nonterm`. -/
def whileShort {σ : Type} (body : σ → R (σ × Bytes)) (n : Nat) : Nat → σ → Bytes → R Bytes
  | 0, _, block => if block.length < n then .error .nonterm else .ok block
  | fuel + 1, s, block =>
    if block.length < n then
      match body s with
      | .error e => .error e
      | .ok (s', out) => whileShort body n fuel s' (block ++ out)
    else .ok block

/-- `bytearray([b1 ^ b2 for b1, b2 in zip(x, y)])` -/
def xorZip (x y : Bytes) : Bytes := List.zipWith (· ^^^ ·) x y

/-! ### key_derivator.py: the PRFs -/

/-- one pass of the `prf_ssl_30` loop; the state is `counter` -/
def ssl30Body (P : Prims) (secret cr sr : Bytes) (nonKey : Bool) (counter : Nat) : R (Nat × Bytes) :=
  match secBits[counter - 1]? with
  | none => .error .index                                   -- `sec_bits[counter - 1]` for counter > 10
  | some ch =>
    let a := P.sha1.hash (List.replicate counter ch ++ secret ++ (if nonKey then cr ++ sr else sr ++ cr))
    .ok (counter + 1, P.md5.hash (secret ++ a))

/-- `prf_ssl_30(secret, client_random, server_random, length, non_key)` -/
def prfSsl30 (P : Prims) (secret cr sr : Bytes) (length : Nat) (nonKey : Bool) : R Bytes := do
  let kb ← whileShort (ssl30Body P secret cr sr nonKey) length length 1 []
  pure (kb.take length)

/-- one pass of a `P_hash` loop; the state is `a0` -/
def pHashBody (hmac : Bytes → Bytes → Bytes) (secret seed a0 : Bytes) : R (Bytes × Bytes) :=
  let a1 := hmac secret a0
  .ok (a1, hmac secret (a1 ++ seed))

/-- `prf_tls_10_11(secret, client_random, server_random, label, length, non_key)`.
    `l_s1 = l_s2 = math.ceil(l_s / 2)`; `s1 = secret[:l_s1]`; `s2 = secret[l_s2:]`. -/
def prfTls1011 (P : Prims) (secret cr sr label : Bytes) (length : Nat) (nonKey : Bool) : R Bytes := do
  let seed := if nonKey then label ++ cr ++ sr else label ++ sr ++ cr
  let half := (secret.length + 1) / 2
  let s1 := secret.take half
  let s2 := secret.drop half
  let pMd5 ← whileShort (pHashBody P.md5.hmac s1 seed) length length seed []
  let pSha1 ← whileShort (pHashBody P.sha1.hmac s2 seed) length length seed []
  pure ((xorZip pMd5 pSha1).take length)

inductive MacTag | md5 | sha1 | sha256 | sha384
  deriving DecidableEq, Repr

/-- `cipher_suite["MAC"]` as a hash object -/
def macSuite (P : Prims) : MacTag → HashSuite
  | .md5 => P.md5 | .sha1 => P.sha1 | .sha256 => P.sha256 | .sha384 => P.sha384

/-- `mac = hashes.SHA256; if mac_function == hashes.SHA384: mac = hashes.SHA384` -/
def prfHash12 (P : Prims) (mac : MacTag) : HashSuite := if mac = .sha384 then P.sha384 else P.sha256

/-- `prf_tls_12(secret, client_random, server_random, label, length, mac_function)` -/
def prfTls12 (P : Prims) (secret cr sr label : Bytes) (length : Nat) (mac : MacTag) : R Bytes := do
  let h := prfHash12 P mac
  let seed := label ++ sr ++ cr
  let sb ← whileShort (pHashBody h.hmac secret seed) length length seed []
  pure (sb.take length)

def genMasterSsl30 (P : Prims) (pms cr sr : Bytes) : R Bytes := prfSsl30 P pms cr sr 48 true

def genMasterTls1011 (P : Prims) (pms cr sr : Bytes) : R Bytes := prfTls1011 P pms cr sr bMasterSecret 48 true

/-- `gen_master_secret_tls_12(pm_secret, client_random, server_random, mac_function=SHA256)`: two unrolled
    `P_hash` rounds with the suite's PRF hash, `(p1 + p2)[:48]`. -/
def genMasterTls12 (P : Prims) (mac : MacTag) (pms cr sr : Bytes) : Bytes :=
  let h := prfHash12 P mac
  let seed := bMasterSecret ++ cr ++ sr
  let a1 := h.hmac pms seed
  let a2 := h.hmac pms a1
  let p1 := h.hmac pms (a1 ++ seed)
  let p2 := h.hmac pms (a2 ++ seed)
  (p1 ++ p2).take 48

/-! ### key_derivator.py: key blocks -/

/-- `cipher_suite["CryptoAlgo"][0]` by class name (`other` = anything else, e.g. `None`) -/
inductive CipherTag | aes | camellia | tripleDES | idea | rc4 | chacha | aesgcm | aesccm | other
  deriving DecidableEq, Repr

/-- the `iv_length` table of `dev_ssl_30_keys` and `dev_tls_10_11_keys`
    (`algorithms.AES`, `algorithms.Camellia` → 16; `TripleDES`, `IDEA` → 8; default 4) -/
def ivLenLegacy : CipherTag → Nat
  | .aes | .camellia => 16
  | .tripleDES | .idea => 8
  | _ => 4

/-- the `iv_length` table of `dev_tls_12_keys` -/
def ivLenTls12 (c : CipherTag) (useAead : Bool) : Nat :=
  let iv := if c = .chacha then 12 else 4
  if c = .aes ∨ c = .camellia then
    if c = .camellia ∧ useAead then 4 else 16
  else iv

/-- the `keys` dict of the three legacy `dev_*_keys` functions -/
structure Keys6 where
  clientMac : Bytes
  serverMac : Bytes
  clientKey : Bytes
  serverKey : Bytes
  clientIv : Bytes
  serverIv : Bytes
  deriving DecidableEq, Repr

/-- the six slices `key_block[0:mac]`, `[mac:2*mac]`, `[2*mac:2*mac+key]`, … as written -/
def sliceKeys (kb : Bytes) (mac key iv : Nat) : Keys6 where
  clientMac := kb.slice 0 mac
  serverMac := kb.slice mac (2 * mac)
  clientKey := kb.slice (2 * mac) (2 * mac + key)
  serverKey := kb.slice (2 * mac + key) (2 * mac + 2 * key)
  clientIv := kb.slice (2 * mac + 2 * key) (2 * mac + 2 * key + iv)
  serverIv := kb.slice (2 * mac + 2 * key + iv) (2 * mac + 2 * key + 2 * iv)

/-- `dev_ssl_30_keys(master_secret, server_random, client_random, key_length, mac_length,
    key_block_length, cipher_algo, use_aead)` - note the parameter order (server random first). -/
def devSsl30Keys (P : Prims) (master sr cr : Bytes) (keyLen macLen kbLen : Nat) (c : CipherTag)
    (useAead : Bool) : R Keys6 := do
  let iv := ivLenLegacy c
  let mac := if useAead then 0 else macLen
  let kb ← prfSsl30 P master cr sr (kbLen + 2 * iv) false
  pure (sliceKeys kb mac keyLen iv)

/-- `dev_tls_10_11_keys(master_secret, server_random, client_random, …)` -/
def devTls1011Keys (P : Prims) (master sr cr : Bytes) (keyLen macLen kbLen : Nat) (c : CipherTag)
    (useAead : Bool) : R Keys6 := do
  let iv := ivLenLegacy c
  let mac := if useAead then 0 else macLen
  let kb ← prfTls1011 P master cr sr bKeyExpansion (kbLen + 2 * iv) false
  pure (sliceKeys kb mac keyLen iv)

/-- `dev_tls_12_keys(master_secret, client_random, server_random, …, mac_function)` - client random first. -/
def devTls12Keys (P : Prims) (master cr sr : Bytes) (keyLen macLen kbLen : Nat) (c : CipherTag)
    (useAead : Bool) (mac : MacTag) : R Keys6 := do
  let iv := ivLenTls12 c useAead
  let macL := if useAead then 0 else macLen
  let kb ← prfTls12 P master cr sr bKeyExpansion (kbLen + 2 * iv) mac
  pure (sliceKeys kb macL keyLen iv)

/-! ### key-log entries -/

/-- `secret.label` -/
inductive Label
  | clientRandom | rsa | clientHandshake | serverHandshake | clientTraffic0 | serverTraffic0
  | clientEarly | serverEarly | other
  deriving DecidableEq, Repr

/-- a key-log entry already matched to the connection: `(secret.label, bytes.fromhex(secret.value))` -/
abbrev Secret := Label × Bytes

/-! ### TLS 1.3 -/

/-- `int(n).to_bytes(2, 'big')` -/
def toBytes2 (n : Nat) : R Bytes :=
  if n < 65536 then .ok [UInt8.ofNat (n / 256), UInt8.ofNat (n % 256)] else .error .overflow

/-- `n.to_bytes(1, 'big')` -/
def toBytes1 (n : Nat) : R Bytes := if n < 256 then .ok [UInt8.ofNat n] else .error .overflow

/-- the locals of `dev_tls_13_keys` while it walks `secret_list`; all eight start as `None` -/
structure Tls13Acc where
  clientHsKey : Option Bytes := none
  clientHsIv : Option Bytes := none
  serverHsKey : Option Bytes := none
  serverHsIv : Option Bytes := none
  clientAppKey : Option Bytes := none
  clientAppIv : Option Bytes := none
  serverAppKey : Option Bytes := none
  serverAppIv : Option Bytes := none
  deriving DecidableEq, Repr

/-- the `keys` dict of `dev_tls_13_keys` (an entry is `None` when its secret is not in the key log) -/
structure Tls13Keys where
  clientHsKey : Option Bytes
  serverHsKey : Option Bytes
  clientAppKey : Option Bytes
  serverAppKey : Option Bytes
  clientHsIv : Option Bytes
  serverHsIv : Option Bytes
  clientAppIv : Option Bytes
  serverAppIv : Option Bytes
  deriving DecidableEq, Repr

/-- one iteration of `for secret in secret_list` -/
def tls13Step (h : HashSuite) (keyLen : Nat) (keyInfo ivInfo : Bytes) (acc : Tls13Acc) (s : Secret) : Tls13Acc :=
  let k := h.hkdfExpand s.2 keyInfo keyLen
  let iv := h.hkdfExpand s.2 ivInfo 12
  match s.1 with
  | .clientHandshake => { acc with clientHsKey := some k, clientHsIv := some iv }
  | .serverHandshake => { acc with serverHsKey := some k, serverHsIv := some iv }
  | .clientTraffic0 => { acc with clientAppKey := some k, clientAppIv := some iv }
  | .serverTraffic0 => { acc with serverAppKey := some k, serverAppIv := some iv }
  | _ => acc

/-- `dev_tls_13_keys(secret_list, key_length, hash_fun)`.
    `iv_info = b'\x00\x0c' + b'\x08' + b'tls13 iv' + b'\x00'`,
    `key_info = key_length(2) + b'\x09' + b'tls13 key' + b'\x00'`. -/
def devTls13Keys (h : HashSuite) (secrets : List Secret) (keyLen : Nat) : R Tls13Keys := do
  let kl ← toBytes2 keyLen
  let ivInfo : Bytes := [0x00, 0x0c] ++ [0x08] ++ bTls13Iv ++ [0x00]
  let keyInfo : Bytes := kl ++ [0x09] ++ bTls13Key ++ [0x00]
  -- `int.from_bytes(key_length, 'big')` is `keyLen` again (`keyLen < 65536` here)
  let acc := secrets.foldl (tls13Step h keyLen keyInfo ivInfo) {}
  pure { clientHsKey := acc.clientHsKey, serverHsKey := acc.serverHsKey, clientAppKey := acc.clientAppKey,
         serverAppKey := acc.serverAppKey, clientHsIv := acc.clientHsIv, serverHsIv := acc.serverHsIv,
         clientAppIv := acc.clientAppIv, serverAppIv := acc.serverAppIv }

/-- what `Decryptor.parse_keys` stores for TLS 1.3: the current keys are the handshake keys, or the
    application keys when the handshake key or IV is `None` (any of them may be `None`). -/
structure Installed13 where
  clientKey : Option Bytes
  clientIv : Option Bytes
  serverKey : Option Bytes
  serverIv : Option Bytes
  clientHsKey : Option Bytes
  clientHsIv : Option Bytes
  serverHsKey : Option Bytes
  serverHsIv : Option Bytes
  clientAppKey : Option Bytes
  clientAppIv : Option Bytes
  serverAppKey : Option Bytes
  serverAppIv : Option Bytes
  deriving DecidableEq, Repr

def parseKeys13 (k : Tls13Keys) : Installed13 :=
  let (chk, chi) := match k.clientHsKey, k.clientHsIv with
    | some a, some b => (some a, some b)
    | _, _ => (k.clientAppKey, k.clientAppIv)
  let (shk, shi) := match k.serverHsKey, k.serverHsIv with
    | some a, some b => (some a, some b)
    | _, _ => (k.serverAppKey, k.serverAppIv)
  { clientKey := chk, clientIv := chi, serverKey := shk, serverIv := shi,
    clientHsKey := chk, clientHsIv := chi, serverHsKey := shk, serverHsIv := shi,
    clientAppKey := k.clientAppKey, clientAppIv := k.clientAppIv,
    serverAppKey := k.serverAppKey, serverAppIv := k.serverAppIv }

/-- `Decryptor.update_keys(isserver)` -/
def updateKeys (d : Installed13) (isServer : Bool) : Installed13 :=
  if isServer then { d with serverKey := d.serverAppKey, serverIv := d.serverAppIv }
  else { d with clientKey := d.clientAppKey, clientIv := d.clientAppIv }

/-! ### session.py: `generate_keys` -/

inductive Version | ssl30 | tls10 | tls11 | tls12 | tls13
  deriving DecidableEq, Repr

/-- the resolved suite parameters `generate_keys` reads from `split_cipher_suite`'s dict -/
structure Suite where
  cipher : CipherTag      -- cipher_suite["CryptoAlgo"][0]
  cryptoFlag : Bool       -- cipher_suite["CryptoAlgo"][1]
  modeFlag : Bool         -- cipher_suite["Mode"][1]
  keyLen : Nat            -- cipher_suite["KeyLength"]
  mac : MacTag            -- cipher_suite["MAC"]
  deriving DecidableEq, Repr

/-- the key material a `Decryptor` holds after `generate_keys` -/
inductive Installed
  | legacy (k : Keys6)
  | tls13 (k : Installed13)
  deriving DecidableEq, Repr

/-- `Session.generate_keys(tls_version, suite, client_random, server_random)` after the suite has
    resolved; `secrets` is what `find_session_secrets` returned. `none`: no secrets, no decryptor. -/
def generateKeys (P : Prims) (v : Version) (s : Suite) (secrets : List Secret) (cr sr : Bytes) :
    R (Option Installed) :=
  match secrets with
  | [] => .ok none
  | secret :: _ =>
    let keyLen := s.keyLen
    let macLen := (macSuite P s.mac).outLen            -- cipher_suite["MAC"].digest_size
    let kbLen := 2 * keyLen + 2 * macLen
    match v with
    | .tls13 => do
      let k ← devTls13Keys (macSuite P s.mac) secrets keyLen
      let d := parseKeys13 k
      -- `Decryptor.__init__`: an ARC4 suite builds `Cipher(ARC4(self.server_key))` / `(self.client_key)` at once
      if s.cipher = .rc4 ∧ (d.serverKey.isNone ∨ d.clientKey.isNone) then .error .typeErr
      else pure (some (.tls13 d))
    | .tls12 =>
      match secret.1 with
      | .clientRandom => do
        let k ← devTls12Keys P secret.2 cr sr keyLen macLen kbLen s.cipher s.modeFlag s.mac
        pure (some (.legacy k))
      | .rsa => do
        let ms := genMasterTls12 P s.mac secret.2 cr sr
        let k ← devTls12Keys P ms cr sr keyLen macLen kbLen s.cipher s.modeFlag s.mac
        pure (some (.legacy k))
      | _ => .error .unbound                         -- `keys` never assigned
    | .tls10 | .tls11 =>
      match secret.1 with
      | .clientRandom => do
        let k ← devTls1011Keys P secret.2 sr cr keyLen macLen kbLen s.cipher s.modeFlag
        pure (some (.legacy k))
      | .rsa => do
        let ms ← genMasterTls1011 P secret.2 cr sr
        let k ← devTls1011Keys P ms sr cr keyLen macLen kbLen s.cipher s.modeFlag
        pure (some (.legacy k))
      | _ => .error .unbound
    | .ssl30 =>
      match secret.1 with
      | .clientRandom => do
        let k ← devSsl30Keys P secret.2 sr cr keyLen macLen kbLen s.cipher s.cryptoFlag
        pure (some (.legacy k))
      | .rsa => do
        let ms ← genMasterSsl30 P secret.2 cr sr
        let k ← devSsl30Keys P ms sr cr keyLen macLen kbLen s.cipher s.cryptoFlag
        pure (some (.legacy k))
      | _ => .error .unbound

/-- `handle_tls_handshake_record` wraps `handle_tls_server_hello` (and with it `generate_keys`) in
    `try/except Exception`: on an exception `can_decrypt = False` and no decryptor is installed. -/
def serverHelloInstall (P : Prims) (v : Version) (s : Suite) (secrets : List Secret) (cr sr : Bytes) :
    Option Installed :=
  match generateKeys P v s secrets cr sr with
  | .ok o => o
  | .error _ => none

/-! ### quic_key_generation.py -/

inductive QuicVersion | unknown | v1 | v2
  deriving DecidableEq, Repr

/-- `make_info(label, key_length)`:
    `key_length.to_bytes(2,'big') + (len(label)+6).to_bytes(1,'big') + b"tls13 " + label + b"\x00"` -/
def makeInfo (label : Bytes) (keyLength : Nat) : R Bytes := do
  let l2 ← toBytes2 keyLength
  let l1 ← toBytes1 (label.length + 6)
  pure (l2 ++ l1 ++ bTls13 ++ label ++ [0x00])

/-- the dict `dev_initial_keys` returns -/
structure InitialKeys where
  clientKey : Bytes
  clientIv : Bytes
  clientHp : Bytes
  serverKey : Bytes
  serverIv : Bytes
  serverHp : Bytes
  deriving DecidableEq, Repr

/-- `dev_initial_keys(connection_id, quic_version, chacha20)`; always SHA-256 (`h`), literal 32s. -/
def devInitialKeys (h : HashSuite) (cid : Bytes) (ver : QuicVersion) (chacha20 : Bool) : R (Option InitialKeys) :=
  let keyLength := if chacha20 then 32 else 16
  let hpKeyLength := if chacha20 then 32 else 16
  match ver with
  | .unknown => .ok none
  | _ => do
    let salt := if ver = .v1 then saltV1 else saltV2
    let initialSecret := h.hkdfExtract salt cid
    let clientInitial := h.hkdfExpand initialSecret (← makeInfo bClientIn 32) 32
    let serverInitial := h.hkdfExpand initialSecret (← makeInfo bServerIn 32) 32
    let keyLabel := if ver = .v1 then bQuicKey else bQuicV2Key
    let ivLabel := if ver = .v1 then bQuicIv else bQuicV2Iv
    let hpLabel := if ver = .v1 then bQuicHp else bQuicV2Hp
    let keyInfo ← makeInfo keyLabel keyLength
    let ivInfo ← makeInfo ivLabel 12
    let hpInfo ← makeInfo hpLabel hpKeyLength
    pure (some {
      clientKey := h.hkdfExpand clientInitial keyInfo keyLength
      clientIv := h.hkdfExpand clientInitial ivInfo 12
      clientHp := h.hkdfExpand clientInitial hpInfo keyLength
      serverKey := h.hkdfExpand serverInitial keyInfo keyLength
      serverIv := h.hkdfExpand serverInitial ivInfo 12
      serverHp := h.hkdfExpand serverInitial hpInfo keyLength })

/-- `(key, iv, hp)` derived from one traffic secret -/
structure Triple where
  key : Bytes
  iv : Bytes
  hp : Bytes
  deriving DecidableEq, Repr

/-- the locals of `dev_quic_keys`: early ones start as `None`, the others are unassigned -/
structure QuicAcc where
  clientHs : Option Triple := none
  serverHs : Option Triple := none
  clientApp : Option (Triple × Bytes) := none     -- with `client_application_secret`
  serverApp : Option (Triple × Bytes) := none
  clientEarly : Option Triple := none
  serverEarly : Option Triple := none
  deriving DecidableEq, Repr

/-- the dict `dev_quic_keys` returns -/
structure QuicKeys where
  clientHs : Triple
  serverHs : Triple
  clientApp : Triple
  serverApp : Triple
  clientAppSec : Bytes
  serverAppSec : Bytes
  clientEarly : Option Triple      -- the three `client_early_*` entries are `None` together
  serverEarly : Option Triple
  deriving DecidableEq, Repr

def quicStep (h : HashSuite) (keyLen : Nat) (keyInfo ivInfo hpInfo : Bytes) (acc : QuicAcc) (s : Secret) : QuicAcc :=
  let t : Triple := ⟨h.hkdfExpand s.2 keyInfo keyLen, h.hkdfExpand s.2 ivInfo 12, h.hkdfExpand s.2 hpInfo keyLen⟩
  match s.1 with
  | .clientHandshake => { acc with clientHs := some t }
  | .serverHandshake => { acc with serverHs := some t }
  | .clientTraffic0 => { acc with clientApp := some (t, s.2) }
  | .serverTraffic0 => { acc with serverApp := some (t, s.2) }
  | .clientEarly => { acc with clientEarly := some t }
  | .serverEarly => { acc with serverEarly := some t }
  | _ => acc

/-- `dev_quic_keys(key_length, secret_list, hash_fun, quic_version)` -/
def devQuicKeys (h : HashSuite) (keyLen : Nat) (secrets : List Secret) (ver : QuicVersion) : R QuicKeys := do
  let v1 := ver = .v1
  let keyInfo ← makeInfo (if v1 then bQuicKey else bQuicV2Key) keyLen
  let ivInfo ← makeInfo (if v1 then bQuicIv else bQuicV2Iv) 12
  let hpInfo ← makeInfo (if v1 then bQuicHp else bQuicV2Hp) keyLen
  let acc := secrets.foldl (quicStep h keyLen keyInfo ivInfo hpInfo) {}
  match acc.clientHs, acc.serverHs, acc.clientApp, acc.serverApp with
  | some ch, some sh, some (ca, cs), some (sa, ss) =>
    pure { clientHs := ch, serverHs := sh, clientApp := ca, serverApp := sa, clientAppSec := cs, serverAppSec := ss,
           clientEarly := acc.clientEarly, serverEarly := acc.serverEarly }
  | _, _, _, _ => .error .unbound

/-- `QuicDecryptor.keys`: `[server_key, server_iv, client_key, client_iv(, server_secret, client_secret)]` -/
abbrev QDec := List Bytes

/-- `key_update(decryptor_n, hash_fun, key_length, cipher, quic_version)`; `if quic_version.V1:` is
    always true (attribute access on an enum member), so the v1 labels are used for every version. -/
def keyUpdate (h : HashSuite) (keyLen : Nat) (d : QDec) : R QDec := do
  let keyInfo ← makeInfo bQuicKey keyLen
  let ivInfo ← makeInfo bQuicIv 12
  let kuInfo ← makeInfo bQuicKu h.outLen
  match d[4]?, d[5]? with
  | some serverN, some clientN =>
    let serverN1 := h.hkdfExpand serverN kuInfo h.outLen
    let clientN1 := h.hkdfExpand clientN kuInfo h.outLen
    pure [h.hkdfExpand serverN1 keyInfo keyLen, h.hkdfExpand serverN1 ivInfo 12,
          h.hkdfExpand clientN1 keyInfo keyLen, h.hkdfExpand clientN1 ivInfo 12, serverN1, clientN1]
  | _, _ => .error .index

/-! ### quic_session.py -/

/-- `set_initial_decryptor`: the `Initial` decryptor's key list (and `self.keys.update(keys)`) -/
def setInitialDecryptor (h : HashSuite) (dcid : Bytes) (ver : QuicVersion) (chacha20 : Bool) :
    R (Option (QDec × InitialKeys)) := do
  match ← devInitialKeys h dcid ver chacha20 with
  | none => pure none
  | some k => pure (some ([k.serverKey, k.serverIv, k.clientKey, k.clientIv], k))

/-- the `match ciphersuite:` of `set_tls_decryptors`: hash and key length per code point -/
def quicSuiteParams (P : Prims) (code : Nat) : Option (HashSuite × Nat) :=
  if code = 0x1301 then some (P.sha256, 16)
  else if code = 0x1302 then some (P.sha384, 32)
  else if code = 0x1303 then some (P.sha256, 32)
  else if code = 0x1304 then some (P.sha256, 16)
  else none

/-- what `set_tls_decryptors` leaves behind -/
structure QuicInstalled where
  keys : QuicKeys
  handshake : QDec
  application : List QDec
  early : Option QDec
  deriving DecidableEq, Repr

/-- `set_tls_decryptors(client_random, ciphersuite)`; `secrets` = the key-log entries of this client
    random, in file order. `none`: unknown suite (`can_decrypt = False`). The `Early` decryptor is
    built only when the early key is not `None` (`bulk_cipher(None)` raises, caught). -/
def setTlsDecryptors (P : Prims) (code : Nat) (secrets : List Secret) (ver : QuicVersion) :
    R (Option QuicInstalled) :=
  match quicSuiteParams P code with
  | none => .ok none
  | some (h, keyLen) => do
    let k ← devQuicKeys h keyLen secrets ver
    pure (some {
      keys := k
      handshake := [k.serverHs.key, k.serverHs.iv, k.clientHs.key, k.clientHs.iv]
      application := [[k.serverApp.key, k.serverApp.iv, k.clientApp.key, k.clientApp.iv, k.serverAppSec, k.clientAppSec]]
      early := k.clientEarly.map fun t => [t.key, t.iv] })

/-- the part of the session `check_key_epoch` touches -/
structure Epochs where
  epochClient : Nat := 0
  epochServer : Nat := 0
  lastPhaseClient : Nat := 0
  lastPhaseServer : Nat := 0
  application : List QDec
  deriving DecidableEq, Repr

/-- `check_key_epoch(key_phase_bit, isserver)` -/
def checkKeyEpoch (h : HashSuite) (keyLen : Nat) (st : Epochs) (phase : Nat) (isServer : Bool) : R Epochs := do
  let st :=
    if isServer then
      if st.lastPhaseServer ≠ phase then { st with epochServer := st.epochServer + 1, lastPhaseServer := phase } else st
    else
      if st.lastPhaseClient ≠ phase then { st with epochClient := st.epochClient + 1, lastPhaseClient := phase } else st
  if st.epochClient = st.application.length ∨ st.epochServer = st.application.length then
    match st.application.getLast? with
    | none => .error .index
    | some last => do
      let d ← keyUpdate h keyLen last
      pure { st with application := st.application ++ [d] }
  else pure st

end TLX.KeySchedule
