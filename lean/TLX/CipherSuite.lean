/-
Model of `split_cipher_suite` (tlexport/cipher_suite_parser.py:315-348) over the tables that
harness/extract.py regenerates from the current source on every run (`TLX.Gen`).
-/
import TLX.CipherSuiteTypes
import TLX.Tok
import TLX.Gen.CipherTable
namespace TLX.CipherSuite
open TLX.Tok

/-- `p in s` for Python `str` (substring test), structurally recursive. -/
def isPrefix : List Nat → List Nat → Bool
  | [], _ => true
  | _ :: _, [] => false
  | a :: as, b :: bs => a == b && isPrefix as bs

def isInfix (p : List Nat) : List Nat → Bool
  | [] => p.isEmpty
  | s@(_ :: t) => isPrefix p s || isInfix p t

/-- dict lookup `cipher_suites[suite_id]` (first match = the only one in a dict). -/
def lookupName (table : List (Nat × List Nat)) (c : Nat) : Option (List Nat) :=
  (table.find? (·.1 == c)).map (·.2)

/-- the inner `for p in cipher_suite_parts[part]: if p in suite_string: … break` with the defaults -/
def pickPart (name : List Nat) (part : List Nat × List (List Nat × Val)) : Val :=
  match part.2.find? (fun e => isInfix e.1 name) with
  | some e => e.2
  | none => if part.1 = t_TagLength then .int 16 else .tup t_None 0

/-- the result dict as an association list in insertion order -/
abbrev Params := List (List Nat × Val)

def getPart (ps : Params) (k : List Nat) : Option Val := (ps.find? (·.1 == k)).map (·.2)
def setPart (ps : Params) (k : List Nat) (v : Val) : Params :=
  ps.map fun e => if e.1 == k then (k, v) else e

/-- the two fix-ups after the loop -/
def fixups (name : List Nat) (ps : Params) : Params :=
  let ps :=
    if getPart ps t_CryptoAlgo = some (.tup t_AES 0) then
      if isInfix t_GCM name then setPart ps t_CryptoAlgo (.tup t_AESGCM 1)
      else if isInfix t_CCM name then setPart ps t_CryptoAlgo (.tup t_AESCCM 1)
      else ps
    else ps
  if getPart ps t_MAC = some (.tup t_None 0) then setPart ps t_MAC (.cls t_SHA256) else ps

def splitName (parts : List (List Nat × List (List Nat × Val))) (name : List Nat) : Params :=
  fixups name (parts.map fun part => (part.1, pickPart name part))

/-- `split_cipher_suite(suite_id)`: `none` is the "not supported" return. -/
def resolveWith (table : List (Nat × List Nat)) (parts : List (List Nat × List (List Nat × Val))) (c : Nat) : Option Params :=
  (lookupName table c).map (splitName parts)

def resolve (c : Nat) : Option Params := resolveWith Gen.cipherSuites Gen.cipherSuiteParts c

end TLX.CipherSuite
