/-
Model of `OutputBuilder` (tlexport/output_builder.py:12-177): how decrypted TLS records become a synthetic TCP
conversation. Core Lean only.

Mirrors: `__init__` port choice (30-36), `build` (38-76), `build_ack_handshake` (80-103: SYN seq 0 / SYN-ACK seq 0
ack 1 / ACK seq 1 ack 1, all at the time of the first exported record's first carrier), `build_server_packet` /
`build_client_packet` (105-177: the split arithmetic `part_len = floor(n / k)`, `k - 1` equal parts, the remainder,
one PSH|ACK segment per part at the running sequence number, followed by a pure ACK of the receiver).
Not modelled: scapy's serialisation of the abstract frame (compared byte-for-byte by the harness), `None` entries in
the record list (`conn_reset`; `Session` never appends them).
-/
import TLX.Py
namespace TLX.TcpOut

/-- one element of `application_traffic`: decrypted bytes (`none` = the decryptor returned `None`),
    the capture times of the packets that carried the record, and the direction -/
structure Rec where
  plain : Option Bytes
  ts : List Nat
  fromServer : Bool
  deriving Repr

/-- abstract TCP frame; addresses/MACs/ports follow from `fromServer` and the session (see `Cfg`) -/
structure Frame where
  ts : Nat
  fromServer : Bool
  flags : Nat            -- 0x02 SYN, 0x12 SYN|ACK, 0x10 ACK, 0x18 PSH|ACK
  seq : Nat
  ack : Nat
  payload : Bytes
  deriving Repr, DecidableEq

/-- `decrypted = b'123345'` when the record's plaintext is `None` -/
def placeholder : Bytes := [0x31, 0x32, 0x33, 0x33, 0x34, 0x35]

/-- the first `k - 1` parts of length `pl` each: `decrypted[i*pl : i*pl + pl]` for `i < m` -/
def equalParts (d : Bytes) (pl : Nat) : Nat → List Bytes
  | 0 => []
  | m + 1 => equalParts d pl m ++ [Bytes.slice d (m * pl) (m * pl + pl)]

/-- the split of `build_*_packet`: `k = len(ts)` carriers; `none` = ZeroDivisionError (`k = 0`).
    After the loop `last_len = (k - 1) * part_len`. -/
def parts (d : Bytes) (k : Nat) : Option (List Bytes) :=
  if k = 0 then none else
    let pl := d.length / k
    let lastLen := (k - 1) * pl
    some (equalParts d pl (k - 1) ++ (if lastLen < d.length then [d.drop lastLen] else []))

/-- running sequence numbers `(client_seq, server_seq)` -/
abbrev Seqs := Nat × Nat

/-- one part → data segment + the receiver's pure ACK, both at the carrier's time -/
def partFrames (q : Seqs) (fromServer : Bool) (p : Bytes) (t : Nat) : Seqs × List Frame :=
  if fromServer then
    ((q.1, q.2 + p.length),
      [⟨t, true, 0x18, q.2, q.1, p⟩, ⟨t, false, 0x10, q.1, q.2 + p.length, []⟩])
  else
    ((q.1 + p.length, q.2),
      [⟨t, false, 0x18, q.1, q.2, p⟩, ⟨t, true, 0x10, q.2, q.1 + p.length, []⟩])

/-- parts paired with `ts[i]` (there are never more parts than carriers, `Props.C06.parts_length_le`) -/
def partsFrames (q : Seqs) (fromServer : Bool) : List Bytes → List Nat → Seqs × List Frame
  | p :: ps, t :: tl =>
    let (q', fs) := partFrames q fromServer p t
    let (q'', fs') := partsFrames q' fromServer ps tl
    (q'', fs ++ fs')
  | _, _ => (q, [])

def handshake (t0 : Nat) : List Frame :=
  [⟨t0, false, 0x02, 0, 0, []⟩, ⟨t0, true, 0x12, 0, 1, []⟩, ⟨t0, false, 0x10, 1, 1, []⟩]

/-- the bytes exported for a record -/
def Rec.bytes (r : Rec) : Bytes := r.plain.getD placeholder

/-- one record; `none` = an uncaught exception (ZeroDivisionError on an empty carrier list) -/
def recFrames (q : Seqs) (r : Rec) : Option (Seqs × List Frame) :=
  (parts r.bytes r.ts.length).map fun ps => partsFrames q r.fromServer ps r.ts

def bodyFrames (q : Seqs) : List Rec → Option (Seqs × List Frame)
  | [] => some (q, [])
  | r :: rs =>
    (recFrames q r).bind fun (q', fs) =>
      (bodyFrames q' rs).map fun (q'', fs') => (q'', fs ++ fs')

/-- `OutputBuilder.build()`: `[]` when there are no records, else the handshake at the first record's first
    carrier time followed by the records' segments -/
def build (recs : List Rec) : Option (List Frame) :=
  match recs with
  | [] => some []
  | r :: _ =>
    match r.ts with
    | [] => none                                 -- record[1].metadata[0] raises IndexError
    | t0 :: _ => (bodyFrames (1, 1) recs).map fun (_, fs) => handshake t0 ++ fs

/-- exported server port (`__init__`): original unless `-m`; then the mapped port or 8080 -/
def exportedServerPort (keepOriginal : Bool) (portmap : Nat → Option Nat) (serverPort : Nat) : Nat :=
  if keepOriginal then serverPort else (portmap serverPort).getD 8080

end TLX.TcpOut
