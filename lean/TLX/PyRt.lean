/-
Runtime of the Python→Lean translator (`harness/py2lean.py`): the meaning the translator gives to the Python
operations of its subset. HAND-WRITTEN and small: this file (with the translator) is the trusted part of the
"regenerated model" tie; `harness/translate.py selftest()` runs every translated definition against CPython on
sampled inputs to guard it.

  Python                              here
  ----------------------------------  -------------------------------------------------------------------
  int (unbounded, signed)             `Int`; a value the translator has shown to be `≥ 0` may live in `Nat`
                                      (the `Nat` operations `+ * / % <<< >>> &&& ||| ^^^` agree with Python's there)
  `a & b`, `a | b`, `a ^ b`, `~a`     `band`, `bor`, `bxor`, `~~~` on `Int`: two's complement, as Python defines them
  `a << b`, `a >> b` (b ≥ 0 shown)    `shl`, `shr`; otherwise `shlE`, `shrE` (ValueError: negative shift count)
  `a // b`, `a % b`                   `Int.fdiv`, `Int.fmod` (floor), ZeroDivisionError as `.zeroDiv`: `floordivE`, `modE`
  `x[i]` on bytes                     `getItem x i` (negative `i` counts from the end, IndexError as `.index`)
  `x[a:b]` with a sign not known      `pySlice x a b` (negative bounds count from the end, then clamp)
  `n.to_bytes(k, "big")`              `toBytesE n k` (OverflowError as `.overflow`)
  `d[k]`, `k in d`                    `Dict κ ν = κ → Option ν`: `dictGetE`, `(d k).isSome`
  an exception                        `Except Err α`; with attribute writes before it: `Res σ α` (the state survives)
  `for i in range(a, b)`              `rangeL a b`, folded
Core Lean only.
-/
import TLX.Py
namespace TLX.PyRt
open TLX

/-- the Python exceptions the subset can raise; `fuel` is not one: a `while` loop ran out of the rounds its spec
    allows (the theorems exclude it) -/
inductive Err | index | zeroDiv | value | overflow | key | type | struct | unbound | attr | fuel
  deriving DecidableEq, Repr, Inhabited

/-- how a statement list was left -/
inductive Exit | fall | cont | brk | ret
  deriving DecidableEq, Repr, Inhabited

/-- result of a state-passing function that may raise: the attribute writes made before the exception stay -/
inductive Res (σ α : Type)
  | ok (v : α) (s : σ)
  | raised (e : Err) (s : σ)
  deriving DecidableEq, Repr

abbrev Dict (κ ν : Type) := κ → Option ν

deriving instance DecidableEq for Except

/-- `try: v = x … except: …` as the translator spells it: no `match` in generated code, so that lemmas can name the shape -/
@[inline] def tryE {α β : Type} (x : Except Err α) (onErr : Err → β) (onOk : α → β) : β :=
  match x with
  | .error e => onErr e
  | .ok a => onOk a

@[simp] theorem tryE_ok {α β : Type} (a : α) (f : Err → β) (g : α → β) : tryE (.ok a) f g = g a := rfl
@[simp] theorem tryE_error {α β : Type} (e : Err) (f : Err → β) (g : α → β) : tryE (.error e : Except Err α) f g = f e := rfl

/-- what follows a state-passing call, per way it ended (the state it left is there in both cases) -/
@[inline] def tryR {σ α β : Type} (x : Res σ α) (onErr : Err → σ → β) (onOk : α → σ → β) : β :=
  match x with
  | .raised e s => onErr e s
  | .ok v s => onOk v s

@[simp] theorem tryR_ok {σ α β : Type} (v : α) (s : σ) (f : Err → σ → β) (g : α → σ → β) : tryR (.ok v s) f g = g v s := rfl
@[simp] theorem tryR_raised {σ α β : Type} (e : Err) (s : σ) (f : Err → σ → β) (g : α → σ → β) :
    tryR (.raised e s : Res σ α) f g = f e s := rfl

/-- reading an attribute that may not have been assigned yet, or an attribute / method of a value that may be `None`:
    AttributeError -/
def attrE {α : Type} (x : Option α) : Except Err α :=
  match x with
  | none => .error .attr
  | some a => .ok a

@[simp] theorem attrE_some {α : Type} (a : α) : attrE (some a) = .ok a := rfl
@[simp] theorem attrE_none {α : Type} : attrE (none : Option α) = .error .attr := rfl

/-! ### integers -/

/-- bits of `a` that are not bits of `b` (`a & ~b` for naturals) -/
def ldiff (a b : Nat) : Nat := a ^^^ (a &&& b)

/-- `a & b` -/
def band : Int → Int → Int
  | .ofNat a, .ofNat b => .ofNat (a &&& b)
  | .ofNat a, .negSucc b => .ofNat (ldiff a b)
  | .negSucc a, .ofNat b => .ofNat (ldiff b a)
  | .negSucc a, .negSucc b => .negSucc (a ||| b)

/-- `a | b` -/
def bor : Int → Int → Int
  | .ofNat a, .ofNat b => .ofNat (a ||| b)
  | .ofNat a, .negSucc b => .negSucc (ldiff b a)
  | .negSucc a, .ofNat b => .negSucc (ldiff a b)
  | .negSucc a, .negSucc b => .negSucc (a &&& b)

/-- `a ^ b` -/
def bxor : Int → Int → Int
  | .ofNat a, .ofNat b => .ofNat (a ^^^ b)
  | .ofNat a, .negSucc b => .negSucc (a ^^^ b)
  | .negSucc a, .ofNat b => .negSucc (a ^^^ b)
  | .negSucc a, .negSucc b => .ofNat (a ^^^ b)

/-- `a << b` for `b ≥ 0` -/
def shl (a b : Int) : Int := a <<< b.toNat
/-- `a >> b` for `b ≥ 0` (floor) -/
def shr (a b : Int) : Int := a >>> b.toNat

def shlE (a b : Int) : Except Err Int := if b < 0 then .error .value else .ok (shl a b)
def shrE (a b : Int) : Except Err Int := if b < 0 then .error .value else .ok (shr a b)

def floordivE (a b : Int) : Except Err Int := if b = 0 then .error .zeroDiv else .ok (a.fdiv b)
def modE (a b : Int) : Except Err Int := if b = 0 then .error .zeroDiv else .ok (a.fmod b)

/-! ### bytes -/

/-- `x[i]` -/
def getItem (x : Bytes) (i : Int) : Except Err Nat :=
  let j := if i < 0 then i + x.length else i
  if j < 0 then .error .index
  else match x[j.toNat]? with
    | none => .error .index
    | some b => .ok b.toNat

/-- a slice bound: negative counts from the end, then clamp to `0 … len` -/
def bound (len : Nat) (i : Int) : Nat :=
  if i < 0 then (i + len).toNat else min i.toNat len

/-- `x[a:b]`; `none` = bound omitted -/
def pySlice (x : Bytes) (a b : Option Int) : Bytes :=
  Bytes.slice x ((a.map (bound x.length)).getD 0) ((b.map (bound x.length)).getD x.length)

/-- `n.to_bytes(k, "big")` / `int.to_bytes(n, k, "big", signed=False)` -/
def toBytesE (n k : Int) : Except Err Bytes :=
  if k < 0 then .error .value
  else if n < 0 ∨ n ≥ 256 ^ k.toNat then .error .overflow
  else .ok (Bytes.ofNatBE k.toNat n.toNat)

/-- `x.rstrip(chars)` on bytes: the trailing bytes that occur in `chars` are dropped -/
def rstrip (x chars : Bytes) : Bytes := (x.reverse.dropWhile fun b => chars.contains b).reverse

def dictGetE {κ ν : Type} (d : Dict κ ν) (k : κ) : Except Err ν :=
  match d k with
  | none => .error .key
  | some v => .ok v

/-- a dict display as an association list in display order: a later entry of the same key wins -/
def tableGet {κ ν : Type} [DecidableEq κ] (t : List (κ × ν)) (k : κ) : Option ν :=
  (t.reverse.find? (fun e => decide (e.1 = k))).map (·.2)

/-- `d.keys()` of a dict display: every key once, at the place of its first entry -/
def tableKeys {κ ν : Type} [DecidableEq κ] (t : List (κ × ν)) : List κ := (t.map (·.1)).eraseDups

/-- `d.get(x)` where `x` is an int or a key-typed value and the keys are not ints: an int is never found -/
def tableGetU {κ ν : Type} [DecidableEq κ] (t : List (κ × ν)) (x : Sum Int κ) : Option ν :=
  match x with
  | .inl _ => none
  | .inr k => tableGet t k

/-- calling what `d.get(k)` returned: `None` is not callable (TypeError) -/
def callClass {κ α : Type} (f : Option κ) (k : κ → Except Err α) : Except Err α :=
  match f with
  | none => .error .type
  | some c => k c

/-- `d[k]` on a dict display: KeyError -/
def tableGetE {κ ν : Type} [DecidableEq κ] (t : List (κ × ν)) (k : κ) : Except Err ν :=
  match tableGet t k with
  | none => .error .key
  | some v => .ok v

/-- `d[k] = v` / `d.update({k: v})`: an existing key keeps its place and gets the value, a new key goes to the end -/
def tableSet {κ ν : Type} [DecidableEq κ] (t : List (κ × ν)) (k : κ) (v : ν) : List (κ × ν) :=
  if (t.any fun e => decide (e.1 = k)) then t.map (fun e => if e.1 = k then (k, v) else e) else t ++ [(k, v)]

/-- `p in s` for `str` (code points): `p` occurs as a contiguous part of `s` -/
def strPrefix : List Nat → List Nat → Bool
  | [], _ => true
  | _ :: _, [] => false
  | a :: as, b :: bs => a == b && strPrefix as bs

def strIn (p : List Nat) : List Nat → Bool
  | [] => p.isEmpty
  | s@(_ :: t) => strPrefix p s || strIn p t

/-- a field of a `struct` format of the subset: `B`, or `<n>s` (a negative `n` prints as "-…": a bad format) -/
inductive Fld | B | S (n : Int)
  deriving DecidableEq, Repr

def Fld.size : Fld → Except Err Nat
  | .B => .ok 1
  | .S n => if n < 0 then .error .struct else .ok n.toNat

def fmtSize : List Fld → Except Err Nat
  | [] => .ok 0
  | f :: r =>
    match f.size with
    | .error e => .error e
    | .ok a =>
      match fmtSize r with
      | .error e => .error e
      | .ok b => .ok (a + b)

/-- the bytes of the fields of a format whose sizes are known to be fine, cut from `d` -/
def cutFields : List Fld → Bytes → List Bytes
  | [], _ => []
  | .B :: r, d => d.take 1 :: cutFields r (d.drop 1)
  | .S n :: r, d => d.take n.toNat :: cutFields r (d.drop n.toNat)

/-- `struct.unpack_from(fmt, d)`: struct.error for a bad format or a buffer shorter than the format; else the raw
    bytes of every field (`fldB` / `fldS` read a field as the int or the bytes its kind says) -/
def unpackFrom (fmt : List Fld) (d : Bytes) : Except Err (List Bytes) :=
  match fmtSize fmt with
  | .error e => .error e
  | .ok n => if d.length < n then .error .struct else .ok (cutFields fmt d)

def fldS (parts : List Bytes) (i : Nat) : Bytes := parts.getD i []
def fldB (parts : List Bytes) (i : Nat) : Nat := ((parts.getD i []).headD 0).toNat

/-- `zip(a, b)` of two byte strings -/
def zipBytes (a b : Bytes) : List (Nat × Nat) := List.zipWith (fun x y => (x.toNat, y.toNat)) a b

/-- `bytes([…])`: ValueError unless every element is in range(256) -/
def bytesOfE (l : List Int) : Except Err Bytes :=
  if l.all (fun v => decide (0 ≤ v ∧ v < 256)) then .ok (l.map fun v => UInt8.ofNat v.toNat) else .error .value

/-- `n * x` for a str / bytes `x`: `n ≤ 0` gives the empty sequence -/
def repeatSeq {α : Type} (n : Int) (x : List α) : List α := (List.replicate n.toNat x).flatten

/-- `s[i]` on a str (code points): the one-character string -/
def strItemE (s : List Nat) (i : Int) : Except Err (List Nat) :=
  let j := if i < 0 then i + s.length else i
  if j < 0 then .error .index
  else match s[j.toNat]? with
    | none => .error .index
    | some c => .ok [c]

/-- the UTF-8 bytes of one code point; `none`: a surrogate or a value beyond U+10FFFF (no Python str holds the latter) -/
def utf8One (c : Nat) : Option Bytes :=
  if c < 0x80 then some [UInt8.ofNat c]
  else if c < 0x800 then some [UInt8.ofNat (0xC0 ||| (c >>> 6)), UInt8.ofNat (0x80 ||| (c &&& 0x3F))]
  else if 0xD800 ≤ c ∧ c < 0xE000 then none
  else if c < 0x10000 then some [UInt8.ofNat (0xE0 ||| (c >>> 12)), UInt8.ofNat (0x80 ||| ((c >>> 6) &&& 0x3F)), UInt8.ofNat (0x80 ||| (c &&& 0x3F))]
  else if c < 0x110000 then some [UInt8.ofNat (0xF0 ||| (c >>> 18)), UInt8.ofNat (0x80 ||| ((c >>> 12) &&& 0x3F)),
                                  UInt8.ofNat (0x80 ||| ((c >>> 6) &&& 0x3F)), UInt8.ofNat (0x80 ||| (c &&& 0x3F))]
  else none

/-- `bytes(s, 'utf-8')`: UnicodeEncodeError (a ValueError) on a surrogate -/
def utf8E : List Nat → Except Err Bytes
  | [] => .ok []
  | c :: r =>
    match utf8One c, utf8E r with
    | some b, .ok rest => .ok (b ++ rest)
    | _, _ => .error .value

/-- a hash / HMAC object of `cryptography`: what `finalize()` computes from the bytes the `update()` calls appended -/
structure Acc where
  fin : Bytes → Bytes
  buf : Bytes

def Acc.update (a : Acc) (x : Bytes) : Acc := { a with buf := a.buf ++ x }
def Acc.finalize (a : Acc) : Bytes := a.fin a.buf

/-- `l[i]` on a list -/
def listItemE {α : Type} (l : List α) (i : Int) : Except Err α :=
  let j := if i < 0 then i + l.length else i
  if j < 0 then .error .index
  else match l[j.toNat]? with
    | none => .error .index
    | some a => .ok a

/-- reading a local that no statement on the path has assigned: UnboundLocalError -/
def unboundE {α : Type} (x : Option α) : Except Err α :=
  match x with
  | none => .error .unbound
  | some a => .ok a

@[simp] theorem unboundE_some {α : Type} (a : α) : unboundE (some a) = .ok a := rfl
@[simp] theorem unboundE_none {α : Type} : unboundE (none : Option α) = .error .unbound := rfl

/-- a value that must not be `None` where it is used (`bytearray.extend(None)`: TypeError) -/
def someE {α : Type} (e : Err) (x : Option α) : Except Err α :=
  match x with
  | none => .error e
  | some a => .ok a

@[simp] theorem someE_some {α : Type} (e : Err) (a : α) : someE e (some a) = .ok a := rfl
@[simp] theorem someE_none {α : Type} (e : Err) : someE e (none : Option α) = .error e := rfl

/-- `x.hex()`: two lower-case hex digits per byte (as code points) -/
def hexDigit (n : Nat) : Nat := if n < 10 then 48 + n else 87 + n
def hexStr (x : Bytes) : List Nat := x.flatMap fun b => [hexDigit (b.toNat / 16), hexDigit (b.toNat % 16)]

/-- `bytes(n)`: `n` zero bytes, ValueError for a negative `n` -/
def zerosE (n : Int) : Except Err Bytes := if n < 0 then .error .value else .ok (List.replicate n.toNat 0)

/-- `d.update(other)`: the entries of `other` in their order (an existing key keeps its place and gets the value) -/
def tableUpdate {κ ν : Type} [DecidableEq κ] (t other : List (κ × ν)) : List (κ × ν) :=
  other.foldl (fun acc e => tableSet acc e.1 e.2) t

/-- `s.add(x)` on a set kept as a list without duplicates (a set is only ever asked `in`) -/
def setAdd {α : Type} [DecidableEq α] (s : List α) (x : α) : List α := if x ∈ s then s else s ++ [x]

/-- `s.add(x)` where `x` may be `None`, on a set of which only `bytes` members are ever asked: `None` changes no answer -/
def setAddO {α : Type} [DecidableEq α] (s : List α) : Option α → List α
  | none => s
  | some x => setAdd s x

/-- reading an attribute only some classes of the object have: `e` where the guard says it is absent -/
def guardE {α : Type} (e : Err) (c : Bool) (a : α) : Except Err α := if c then .ok a else .error e

/-- `for x in l: …` over a list of objects whose body may mutate `x` (through its methods) and may `return`: the list with the
    visited objects as they are afterwards, and whether the body returned (the objects after that one are not visited) -/
def forObjs {α : Type} (l : List α) (body : α → α × Bool) : List α × Bool :=
  match l with
  | [] => ([], false)
  | x :: rest =>
    if (body x).2 then ((body x).1 :: rest, true)
    else (((body x).1 :: (forObjs rest body).1), (forObjs rest body).2)

/-- `forObjs` for a body that may raise: each round ends in (the object as it is then, `.ok returned?` or the exception);
    an exception ends the loop like a `return` does (the objects after that one are not visited) -/
def forObjsE {α : Type} (l : List α) (body : α → α × Except Err Bool) : List α × Except Err Bool :=
  match l with
  | [] => ([], .ok false)
  | x :: rest =>
    match (body x).2 with
    | .ok false => (((body x).1 :: (forObjsE rest body).1), (forObjsE rest body).2)
    | r => ((body x).1 :: rest, r)

/-- the list after its last element (an object that was appended and is still held by a local) was mutated -/
def setLast {α : Type} (l : List α) (x : α) : List α := l.dropLast ++ [x]

/-- `s.split(sep)` for a one-character separator (a str is the list of its code points): never the empty list -/
def strSplit (sep : Nat) : List Nat → List (List Nat)
  | [] => [[]]
  | c :: cs =>
    if c = sep then [] :: strSplit sep cs
    else match strSplit sep cs with
      | [] => [[c]]
      | h :: t => (c :: h) :: t

/-- `s.replace(c, "")` for a one-character `c` -/
def strRemove (c : Nat) (s : List Nat) : List Nat := s.filter (· ≠ c)

/-- `bytearray.append(v)`: ValueError unless `v` is in range(256) -/
def appendByteE (x : Bytes) (v : Int) : Except Err Bytes :=
  if v < 0 ∨ v ≥ 256 then .error .value else .ok (x ++ [UInt8.ofNat v.toNat])

/-! ### loops -/

/-- `range(a, b)` -/
def rangeL (a b : Int) : List Int := (List.range (b - a).toNat).map fun (i : Nat) => a + (i : Int)

/-- `for i in range(a, b): st = body(st, i)` where the body may raise -/
def forE {σ ι : Type} (l : List ι) (st : σ) (body : σ → ι → Except Err σ) : Except Err σ :=
  match l with
  | [] => .ok st
  | i :: rest =>
    match body st i with
    | .error e => .error e
    | .ok st' => forE rest st' body

/-- one round of a loop that can be left by `return`: go on with the new state, or leave with the result -/
inductive Step (σ ρ : Type)
  | next (s : σ)
  | brk (s : σ)
  | ret (r : ρ)

/-- `for x in l: …` whose body may raise or `return` -/
def forS {σ ι ρ : Type} (l : List ι) (st : σ) (body : σ → ι → Except Err (Step σ ρ)) : Except Err (Step σ ρ) :=
  match l with
  | [] => .ok (.next st)
  | i :: rest =>
    match body st i with
    | .error e => .error e
    | .ok (.ret r) => .ok (.ret r)
    | .ok (.brk s) => .ok (.next s)
    | .ok (.next s) => forS rest s body

/-- `while cond: …` with at most `fuel` rounds; needing more is `.error .fuel` -/
def whileS {σ ρ : Type} (fuel : Nat) (st : σ) (cond : σ → Bool) (body : σ → Except Err (Step σ ρ)) :
    Except Err (Step σ ρ) :=
  match fuel with
  | 0 => if cond st then .error .fuel else .ok (.next st)
  | n + 1 =>
    if cond st then
      match body st with
      | .error e => .error e
      | .ok (.ret r) => .ok (.ret r)
      | .ok (.brk s) => .ok (.next s)
      | .ok (.next s) => whileS n s cond body
    else .ok (.next st)

/-- what follows a loop, per way it ended (no `match` in generated code) -/
@[inline] def loopS {σ ρ β : Type} (x : Except Err (Step σ ρ)) (onErr : Err → β) (onRet : ρ → β) (onNext : σ → β) : β :=
  match x with
  | .error e => onErr e
  | .ok (.ret r) => onRet r
  | .ok (.brk s) => onNext s
  | .ok (.next s) => onNext s

@[simp] theorem loopS_next {σ ρ β : Type} (s : σ) (f : Err → β) (g : ρ → β) (h : σ → β) :
    loopS (.ok (.next s) : Except Err (Step σ ρ)) f g h = h s := rfl
@[simp] theorem loopS_ret {σ ρ β : Type} (r : ρ) (f : Err → β) (g : ρ → β) (h : σ → β) :
    loopS (.ok (.ret r) : Except Err (Step σ ρ)) f g h = g r := rfl
@[simp] theorem loopS_error {σ ρ β : Type} (e : Err) (f : Err → β) (g : ρ → β) (h : σ → β) :
    loopS (.error e : Except Err (Step σ ρ)) f g h = f e := rfl

/-- `enumerate(x)` on bytes, counting from `n` -/
def enumFrom (n : Nat) : Bytes → List (Nat × Nat)
  | [] => []
  | b :: r => (n, b.toNat) :: enumFrom (n + 1) r

/-- iterating over bytes yields ints -/
def bytesNat (b : Bytes) : List Nat := b.map UInt8.toNat

/-- `range(a, b, step)` for `a, b ≥ 0`, `step > 0` -/
def rangeStep (a b step : Nat) : List Nat := (List.range ((b - a + step - 1) / step)).map fun i => a + i * step

/-- `x[a:b] = v` on a bytearray (`a, b ≥ 0`): the slice `[a', max a' b')` after clamping is replaced -/
def setSlice (x : Bytes) (a b : Nat) (v : Bytes) : Bytes :=
  x.take (min a x.length) ++ v ++ x.drop (max (min a x.length) (min b x.length))

/-- `x[i] = v` on a bytearray: IndexError, ValueError (`v` not in range(256)) -/
def setItemE (x : Bytes) (i v : Int) : Except Err Bytes :=
  let j := if i < 0 then i + x.length else i
  if j < 0 ∨ j ≥ x.length then .error .index
  else if v < 0 ∨ v ≥ 256 then .error .value
  else .ok (x.set j.toNat (UInt8.ofNat v.toNat))

end TLX.PyRt
