/-
The output BYTES of TLExport (C06): what `scapy` 2.7.0 serialises for the layer stacks the two output builders
construct, and what `dpkt.pcapng.Writer` 1.9.8 writes around them. Core Lean only (linked into `tlxdriver`).

Source mirrored
  * tlexport/output_builder.py 80-177: `Ether(src,dst)/IP|IPv6(src,dst)/TCP(sport,dport,flags,seq,ack)[/Raw(part)]`
  * tlexport/quic/quic_output_builder.py 54-109: `Ether(src,dst)/IP|IPv6(src,dst)/UDP(sport,dport)/Raw(bytes(packets))`
  * tlexport/main.py 286-291: `writer = dpkt.pcapng.Writer(file, snaplen=N)` — `N` is REGENERATED from the
    tree under test into `Gen.writerSnaplen` (harness/ob_outbytes.py `regen`; 20000 before the C06 repair, 262144 after), `writer.writepkt(bytes(buf), ts)`
  * scapy (library contract, MEASURED on the installed 2.7.0 and compared byte for byte on every run by
    harness/ob_outbytes.py):
      - `Packet.do_build`: `self_build()` of every layer from the outside in (a field that does not hold its value
        raises `ValueError` there: ports ≥ 2^16, seq/ack ≥ 2^32), then `post_build` from the inside out;
      - `Ether`: dst, src, type 0x0800 / 0x86DD (from the layer binding);
      - `IP.post_build` (inet.py 559-571): version 4, ihl 5, tos 0, len = 20 + len(payload) through
        `struct.pack("!H")` (`struct.error` above 65535), id 1, flags 0, frag 0, ttl 64, proto 6 / 17, header checksum
        `checksum(p)` over the 20 bytes with the field zero;
      - `IPv6.post_build` (inet6.py 338-343): version 6, tc 0, fl 0, plen = len(payload) (`struct.error` above 65535),
        nh 6 / 17, hlim 64;
      - `TCP.post_build` (inet.py 760-779): data offset 5, reserved 0, nine flag bits (an integer is truncated to
        nine bits), window 8192, urgent pointer 0, no options, checksum `in4_chksum` / `in6_chksum` over
        pseudo-header ++ header-with-zero-field ++ payload, written as computed (no 0 → 0xFFFF rule);
      - `UDP.post_build` (inet.py 834-857): len = 8 + len(payload) (`struct.error` above 65535), checksum as for
        TCP, and `if ck == 0: ck = 0xFFFF`;
      - `in4_pseudoheader`: `struct.pack("!4s4sHH", src, dst, proto, len)` (`struct.error` when the segment is
        longer than 65535); `PseudoIPv6`: src, dst, 32-bit length, 24 zero bits, next header;
      - `utils.checksum` (593-601): pad to even length, `sum(array.array("H", pkt))` — 16-bit words in HOST byte
        order, little endian here —, `s = (s >> 16) + (s & 0xffff); s += s >> 16; s = ~s`, byte swap, `& 0xffff`.
        Only TWO folding steps: right for sums below 2^32 only (`Props.C06Bytes.scapy_checksum_is_rfc1071`);
      - a `Raw` layer with an empty load serialises like no `Raw` layer.
  * dpkt `pcapng.Writer.__init__` / `writepkt` / `writepkt_time`, `SectionHeaderBlockLE.__bytes__`,
    `InterfaceDescriptionBlockLE.__bytes__`, `EnhancedPacketBlockLE.__bytes__` (MEASURED): little endian;
    SHB = type 0x0A0D0D0A, length 28, byte-order magic 0x1A2B3C4D, version 1.0, section length -1, no options;
    IDB = type 1, length 20, linktype 1 (Ethernet), reserved 0, snaplen `N`, no options; per packet an EPB =
    type 6, length 32 + align4(n), interface 0, ts_high = us >> 32, ts_low = us & 0xffffffff, caplen = pkt_len = n
    (NOT clipped by snaplen), the data padded with zeros to 32 bits, no options, the length again. Every field goes
    through `struct.pack('<I')`: `struct.error` for a time stamp ≥ 2^64 µs or a block length ≥ 2^32.

Inputs: MAC addresses are the 6 raw bytes dpkt parsed (`MACField.any2i` turns exactly-6-byte values into the
`aa:bb:…` text form, `mac2str` turns that back: identity), IP addresses are the 4 / 16 raw bytes
(`str(IPv4Address(b))` / `str(IPv6Address(b))` then `inet_pton`: identity; one QUIC branch passes `str.encode()`,
which scapy decodes again). Other lengths cannot come out of dpkt's dissection: `Frame.WF`.
The time stamp is the integer `int(round(ts * 1e6))` (the float evaluation is `Container.usOfFloat`, C12).

An exception while serialising ends the run in the write loop of main.py (a truncated file is left behind): the
model answers `.error`, never a default value.
Not modelled: scapy's route/ARP lookups (not triggered: every address is given), the `conf` object.
-/
import TLX.Pipeline
import TLX.Quic.UdpOut
import TLX.Gen.WriterConsts
namespace TLX.OutBytes
open TLX

/-- the two exception classes that can leave `bytes(packet)` / `writepkt` -/
inductive Err
  | value    -- ValueError("While building field …"): a fixed-width field does not hold its value
  | struct   -- struct.error: a length (or time stamp) does not fit `struct.pack`
  deriving DecidableEq, Repr

def Err.tag : Err → String
  | .value => "value"
  | .struct => "struct"

/-- transport layer of an exported frame -/
inductive L4
  | tcp (flags seq ack : Nat)
  | udp
  deriving DecidableEq, Repr

/-- one element of `all_decrypted_sessions` with everything the writer gets; `Pipeline.OutPkt` is the TCP case -/
structure Frame where
  ts : Nat
  srcMac : Bytes
  dstMac : Bytes
  src : MainLoop.Endpoint
  dst : MainLoop.Endpoint
  ipv6 : Bool
  l4 : L4
  payload : Bytes
  deriving DecidableEq, Repr

def Frame.ofOutPkt (p : Pipeline.OutPkt) : Frame :=
  ⟨p.ts, p.srcMac, p.dstMac, p.src, p.dst, p.ipv6, if p.udp then .udp else .tcp p.flags p.seq p.ack, p.payload⟩

/-- quic_output_builder.py 54-109: how a datagram of `QUICOutputbuilder.build` (`Quic.UdpOut.build`) is addressed — from
    the server: server MAC/IP/exported port → client's; otherwise the other way round (all four branches, and the
    one that passes `str.encode()` addresses, produce this) -/
def udpAddressed (serverMac clientMac : Bytes) (server client : MainLoop.Endpoint) (ipv6 : Bool)
    (d : Quic.UdpOut.Dgram) : Frame :=
  if d.isServer then ⟨d.ts, serverMac, clientMac, server, client, ipv6, .udp, d.payload⟩
  else ⟨d.ts, clientMac, serverMac, client, server, ipv6, .udp, d.payload⟩

/-- what dpkt's dissection of the input guarantees about the addresses (see the header) -/
structure Frame.WF (f : Frame) : Prop where
  srcMac : f.srcMac.length = 6
  dstMac : f.dstMac.length = 6
  src : f.src.ip.length = (if f.ipv6 then 16 else 4)
  dst : f.dst.ip.length = (if f.ipv6 then 16 else 4)

instance (f : Frame) : Decidable f.WF :=
  if h : f.srcMac.length = 6 ∧ f.dstMac.length = 6 ∧ f.src.ip.length = (if f.ipv6 then 16 else 4) ∧
      f.dst.ip.length = (if f.ipv6 then 16 else 4) then isTrue ⟨h.1, h.2.1, h.2.2.1, h.2.2.2⟩
  else isFalse fun w => h ⟨w.srcMac, w.dstMac, w.src, w.dst⟩

/-! ### scapy.utils.checksum -/

/-- `sum(array.array("H", pkt))` on a little-endian host (`pkt` has even length when this is called) -/
def leWordSum : Bytes → Nat
  | [] => 0
  | [a] => a.toNat
  | a :: b :: rest => a.toNat + 256 * b.toNat + leWordSum rest

/-- `scapy.utils.checksum(pkt)` -/
def checksum (pkt : Bytes) : Nat :=
  let pkt := if pkt.length % 2 = 1 then pkt ++ [0] else pkt
  let s := leWordSum pkt
  let s := s / 65536 + s % 65536           -- s = (s >> 16) + (s & 0xffff)
  let s := s + s / 65536                   -- s += s >> 16
  let c := 65535 - s % 65536               -- (~s) & 0xffff
  c / 256 + c % 256 * 256                  -- checksum_endian_transform(s) & 0xffff: the two bytes swapped

/-- `struct.pack("!H", n)` -/
def packH (n : Nat) : Except Err Bytes := if n < 65536 then .ok (Bytes.ofNatBE 2 n) else .error .struct

/-- `in4_pseudoheader` / `raw(in6_pseudoheader(…))` for a segment of `len` bytes -/
def pseudo (v6 : Bool) (src dst : Bytes) (proto len : Nat) : Except Err Bytes :=
  if v6 then
    if len < 4294967296 then .ok (src ++ dst ++ Bytes.ofNatBE 4 len ++ [0, 0, 0] ++ [UInt8.ofNat proto])
    else .error .value                     -- IntField uplen
  else
    match packH len with                   -- struct.pack("!4s4sHH", …)
    | .error e => .error e
    | .ok l => .ok (src ++ dst ++ Bytes.ofNatBE 2 proto ++ l)

/-- `in4_chksum(proto, underlayer, p)` / `in6_chksum(nh, underlayer, p)` -/
def l4Checksum (v6 : Bool) (src dst : Bytes) (proto : Nat) (p : Bytes) : Except Err Nat :=
  match pseudo v6 src dst proto p.length with
  | .error e => .error e
  | .ok ph => .ok (checksum (ph ++ p))

/-! ### the layers -/

/-- the 20 TCP header bytes with checksum field `ck`: ports, seq, ack, data offset 5 | reserved 0 | nine flag bits,
    window 8192, checksum, urgent pointer 0 -/
def tcpHeader (sport dport flags seq ack ck : Nat) : Bytes :=
  Bytes.ofNatBE 2 sport ++ Bytes.ofNatBE 2 dport ++ Bytes.ofNatBE 4 seq ++ Bytes.ofNatBE 4 ack ++
    [UInt8.ofNat (80 + flags % 512 / 256), UInt8.ofNat (flags % 256)] ++ Bytes.ofNatBE 2 8192 ++
    Bytes.ofNatBE 2 ck ++ [0, 0]

/-- `TCP.post_build`: the checksum is computed over the segment with a zero field and written as it is -/
def tcpSegment (v6 : Bool) (src dst : Bytes) (sport dport flags seq ack : Nat) (pay : Bytes) : Except Err Bytes :=
  match l4Checksum v6 src dst 6 (tcpHeader sport dport flags seq ack 0 ++ pay) with
  | .error e => .error e
  | .ok ck => .ok (tcpHeader sport dport flags seq ack ck ++ pay)

/-- the 8 UDP header bytes -/
def udpHeader (sport dport len ck : Nat) : Bytes :=
  Bytes.ofNatBE 2 sport ++ Bytes.ofNatBE 2 dport ++ Bytes.ofNatBE 2 len ++ Bytes.ofNatBE 2 ck

/-- `UDP.post_build`: length first (`struct.error` when it does not fit), then the checksum, zero sent as 0xFFFF -/
def udpSegment (v6 : Bool) (src dst : Bytes) (sport dport : Nat) (pay : Bytes) : Except Err Bytes :=
  match packH (8 + pay.length) with
  | .error e => .error e
  | .ok _ =>
    match l4Checksum v6 src dst 17 (udpHeader sport dport (8 + pay.length) 0 ++ pay) with
    | .error e => .error e
    | .ok ck => .ok (udpHeader sport dport (8 + pay.length) (if ck = 0 then 0xFFFF else ck) ++ pay)

/-- the 20 IPv4 header bytes -/
def ipv4Header (src dst : Bytes) (proto len ck : Nat) : Bytes :=
  [0x45, 0] ++ Bytes.ofNatBE 2 len ++ [0, 1, 0, 0, 64, UInt8.ofNat proto] ++ Bytes.ofNatBE 2 ck ++ src ++ dst

/-- `IP.post_build` -/
def ipv4 (src dst : Bytes) (proto : Nat) (pay : Bytes) : Except Err Bytes :=
  match packH (20 + pay.length) with
  | .error e => .error e
  | .ok _ =>
    .ok (ipv4Header src dst proto (20 + pay.length) (checksum (ipv4Header src dst proto (20 + pay.length) 0)) ++ pay)

/-- the 40 IPv6 header bytes -/
def ipv6Header (src dst : Bytes) (nh plen : Nat) : Bytes :=
  [0x60, 0, 0, 0] ++ Bytes.ofNatBE 2 plen ++ [UInt8.ofNat nh, 64] ++ src ++ dst

/-- `IPv6.post_build` -/
def ipv6 (src dst : Bytes) (nh : Nat) (pay : Bytes) : Except Err Bytes :=
  match packH pay.length with
  | .error e => .error e
  | .ok _ => .ok (ipv6Header src dst nh pay.length ++ pay)

def L4.proto : L4 → Nat
  | .tcp .. => 6
  | .udp => 17

/-- `self_build` of the transport layer: do the fixed-width fields hold their values? -/
def L4.fieldsFit : L4 → Bool
  | .tcp _ seq ack => seq < 4294967296 && ack < 4294967296
  | .udp => true

/-- `post_build` of the transport layer -/
def l4Segment (f : Frame) : Except Err Bytes :=
  match f.l4 with
  | .tcp flags seq ack => tcpSegment f.ipv6 f.src.ip f.dst.ip f.src.port f.dst.port flags seq ack f.payload
  | .udp => udpSegment f.ipv6 f.src.ip f.dst.ip f.src.port f.dst.port f.payload

/-- `bytes(packet)` for the packet the builders make of `f`: `self_build` of every layer (only the transport layer
    has fields that may not hold their value), then `post_build` from the innermost layer outwards -/
def serializeFrame (f : Frame) : Except Err Bytes :=
  if ¬ (f.src.port < 65536 ∧ f.dst.port < 65536 ∧ f.l4.fieldsFit = true) then .error .value
  else
    match l4Segment f with
    | .error e => .error e
    | .ok seg =>
      match (if f.ipv6 then ipv6 f.src.ip f.dst.ip f.l4.proto seg else ipv4 f.src.ip f.dst.ip f.l4.proto seg) with
      | .error e => .error e
      | .ok ip => .ok (f.dstMac ++ f.srcMac ++ (if f.ipv6 then [0x86, 0xDD] else [0x08, 0x00]) ++ ip)

/-- `bytes(buf)` for an element of the TLS export -/
def serialize (p : Pipeline.OutPkt) : Except Err Bytes := serializeFrame (Frame.ofOutPkt p)

/-! ### dpkt.pcapng.Writer -/

/-- `struct.pack('<…')` of one unsigned field of `w` bytes (the caller has checked the range) -/
def leN : Nat → Nat → Bytes
  | 0, _ => []
  | w + 1, n => UInt8.ofNat (n % 256) :: leN w (n / 256)

/-- `_align32b` -/
def align4 (n : Nat) : Nat := if n % 4 = 0 then n else n + 4 - n % 4

/-- `bytes(SectionHeaderBlockLE())`: type, len 28, bom, v_major 1, v_minor 0, sec_len -1, len -/
def shb : Bytes :=
  leN 4 0x0A0D0D0A ++ leN 4 28 ++ leN 4 0x1A2B3C4D ++ leN 2 1 ++ leN 2 0 ++ leN 8 (2 ^ 64 - 1) ++ leN 4 28

/-- `bytes(InterfaceDescriptionBlockLE(snaplen=snaplen, linktype=DLT_EN10MB))` -/
def idb (snaplen : Nat) : Bytes :=
  leN 4 1 ++ leN 4 20 ++ leN 2 1 ++ leN 2 0 ++ leN 4 snaplen ++ leN 4 20

/-- `writepkt_time(pkt, ts)` with `us = intround(ts * 1e6)`: `bytes(EnhancedPacketBlockLE(ts_high=us >> 32,
    ts_low=us & 0xffffffff, caplen=n, pkt_len=n, pkt_data=pkt))` -/
def epb (pkt : Bytes) (us : Nat) : Except Err Bytes :=
  let n := 32 + align4 pkt.length
  if n < 4294967296 ∧ us / 4294967296 < 4294967296 then
    .ok (leN 4 6 ++ leN 4 n ++ leN 4 0 ++ leN 4 (us / 4294967296) ++ leN 4 (us % 4294967296) ++
      leN 4 pkt.length ++ leN 4 pkt.length ++
      (pkt ++ List.replicate (align4 pkt.length - pkt.length) 0) ++                -- _padded(pkt_buf)
      leN 4 n)
  else .error .struct

def epbs : List (Bytes × Nat) → Except Err Bytes
  | [] => .ok []
  | (pkt, us) :: rest =>
    match epb pkt us with
    | .error e => .error e
    | .ok b =>
      match epbs rest with
      | .error e => .error e
      | .ok r => .ok (b ++ r)

/-- the file `Writer(file, snaplen=Gen.writerSnaplen)` + `writepkt(frame, ts)` for every `(frame, µs)` leave behind -/
def pcapng (pkts : List (Bytes × Nat)) : Except Err Bytes :=
  match epbs pkts with
  | .error e => .error e
  | .ok body => .ok (shb ++ idb Gen.writerSnaplen ++ body)

/-- the write loop of main.py 290-291: `bytes(buf)` and `writepkt` alternate, so the first exception in file order wins -/
def fileBody : List Frame → Except Err Bytes
  | [] => .ok []
  | f :: rest =>
    match serializeFrame f with
    | .error e => .error e
    | .ok b =>
      match epb b f.ts with
      | .error e => .error e
      | .ok e =>
        match fileBody rest with
        | .error er => .error er
        | .ok r => .ok (e ++ r)

/-- main.py 286-291 for a list of exported frames -/
def fileOfFrames (fs : List Frame) : Except Err Bytes :=
  match fileBody fs with
  | .error e => .error e
  | .ok body => .ok (shb ++ idb Gen.writerSnaplen ++ body)

/-- … for the TLS export of `Pipeline` -/
def fileOf (pkts : List Pipeline.OutPkt) : Except Err Bytes := fileOfFrames (pkts.map Frame.ofOutPkt)

end TLX.OutBytes
