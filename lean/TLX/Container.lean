/-
Model of the capture-container readers TLExport uses (C12). Core Lean only (linked into `tlxdriver`).

Mirrors
  * `tlexport/dpkt_dsb.py`  `Reader.__init__` (l. 68–143)  → `init`      (SHB magic / byte order, version check,
        scan to the first IDB, `if_tsresol` / `if_tsoffset` decode, `seek(0)`)
  * `tlexport/dpkt_dsb.py`  `Reader.__iter__` (l. 196–219) → `iter`      (block walk: EPB, PB, DSB; everything else skipped)
  * `tlexport/dpkt_dsb.py`  `DecryptionSecretBlock.unpack` (l. 20–31)   → `parseDsb`
  * `dpkt/pcapng.py`  `_PcapngBlock.unpack/_do_unpack_options`, `PcapngOption.unpack`, `EnhancedPacketBlock.unpack`,
        `PacketBlock` (same layout), `SectionHeaderBlock`, `InterfaceDescriptionBlock` as reached through `Cls(buf)`
        (`dpkt.Packet.__init__` turns `struct.error` into `NeedData`)      → `blockHead`, `blockTail`, `parseOpts`, `parsePkt`
  * `dpkt/pcap.py`  `Reader.__init__/__iter__` (the reader selected by `-l`, main.py l. 206–209): CONTRACT only
        (magic → byte order, header size, divisor; what is yielded)       → `legacyInit`, `legacyIter`
  * main.py l. 214–215 (`for ts, buf in pcap_reader: Packet(buf, float(ts))`, after the C12 repair) → `read`, `Time`

The file object is a `BufferedReader` (`open(path, "rb")`): `read(n)` returns at most `n` bytes, `read(-1)` the rest
of the file, `read(n)` for `n < -1` raises `ValueError` — reachable, because the code calls `read(blk_len - 8)`.

A timestamp never leaves the integers here: a packet item carries `(ticks, divisor, offset)`, the three operands of the
one scaling expression `self._tsoffset + (ticks / self._divisor)` (dpkt_dsb.py l. 208/212; `hdr.tv_sec + (hdr.tv_usec /
self._divisor)` in dpkt/pcap.py).  `divisor` is the *integer* whose `float()` the code divides by (`float(10 ** k)`,
`float(2 ** k)`, `1E6`) or, for nanosecond legacy captures, the `Decimal('1E9')` (flag `decimal`: the arithmetic is
exact decimal arithmetic and the result is converted with `float(ts)` in main.py).  The IEEE-754 evaluation is in
`Time.toFloat` (executable only, never used in a theorem) — the runtime residue of C12.

Not modelled: `linktype`/`snaplen`/`dloff` (stored, never used by main.py); the option *values* other than
`if_tsresol`/`if_tsoffset` (they are parsed, and a malformed one raises, but nothing reads them); `MemoryError` for
absurd lengths; more than one section (a second SHB is skipped like any other block and its byte order is NOT
re-detected) and more than one interface (only the FIRST IDB's resolution/offset is used for every packet):
single-section, single-interface hypothesis of C12.  Simple Packet Blocks (type 3) are not handled by the code: they
are skipped like unknown blocks (they carry no timestamp).
-/
import TLX.Py
namespace TLX.Container
open TLX

/-! ### byte order, integers -/

inductive Endian | le | be
  deriving DecidableEq, Repr

/-- `int.from_bytes(b, "little")` -/
def leNat : Bytes → Nat
  | [] => 0
  | x :: xs => x.toNat + 256 * leNat xs

/-- `struct.unpack(e + fmt, b)` for one unsigned field occupying all of `b`. -/
def rdNat (e : Endian) (b : Bytes) : Nat :=
  match e with
  | .le => leNat b
  | .be => Bytes.beNat b

/-- unsigned field of width `w` at offset `off` (the caller has checked `off + w ≤ buf.length`) -/
def fld (e : Endian) (buf : Bytes) (off w : Nat) : Nat := rdNat e (buf.slice off (off + w))

/-- `struct.unpack(e + 'q', b)`: two's complement, 64 bit -/
def toInt64 (n : Nat) : Int := if n < 2 ^ 63 then (n : Int) else (n : Int) - (2 ^ 64 : Nat)

/-- `dpkt.pcapng._align32b` -/
def align4 (n : Nat) : Nat := if n % 4 = 0 then n else n + 4 - n % 4

/-! ### errors (Python exceptions, by class and raise site) -/

inductive Err
  | hdrShort     -- ValueError('invalid pcapng header')
  | notShb       -- ValueError('invalid pcapng header: not a SHB')
  | endian       -- ValueError('unknown endianness')
  | version      -- ValueError('unknown pcapng version …')
  | noIdb        -- ValueError('IDB not found')
  | readNeg      -- ValueError('read length must be non-negative or -1')  (file.read(n), n < -1)
  | needData     -- dpkt.NeedData
  | lenMismatch  -- dpkt.UnpackError('length fields do not match')
  | structErr    -- struct.error (if_tsresol / if_tsoffset option of the wrong size)
  | unicode      -- UnicodeDecodeError (opt_comment that is not UTF-8)
  | badMagic     -- legacy: ValueError('invalid tcpdump header')
  deriving DecidableEq, Repr

def Err.name : Err → String
  | .hdrShort => "hdr-short" | .notShb => "not-shb" | .endian => "endianness" | .version => "version"
  | .noIdb => "no-idb" | .readNeg => "read-neg" | .needData => "needdata" | .lenMismatch => "len-mismatch"
  | .structErr => "struct" | .unicode => "unicode" | .badMagic => "bad-magic"

/-- `f.read(n)` of a `BufferedReader` whose unread part is `rest`. The new unread part is
    `rest.drop (result.length)`. -/
def fread (rest : Bytes) (n : Int) : Except Err Bytes :=
  if n < -1 then .error .readNeg
  else if n = -1 then .ok rest
  else .ok (rest.take n.toNat)

/-! ### options (`_do_unpack_options`, `PcapngOption.unpack`) -/

structure Opt where
  code : Nat
  data : Bytes
  deriving DecidableEq, Repr

def inRange (lo hi : UInt8) : Option UInt8 → Bool
  | some b => lo ≤ b && b ≤ hi
  | none => false

/-- CPython's strict UTF-8 decoder accepts exactly the well-formed sequences of Unicode Table 3-7
    (no overlong forms, no surrogates, nothing above U+10FFFF). One round consumes ≥ 1 byte. -/
def utf8Fuel : Nat → Bytes → Bool
  | _, [] => true
  | 0, _ :: _ => false
  | n + 1, b0 :: rest =>
    if b0 < 0x80 then utf8Fuel n rest
    else if 0xC2 ≤ b0 && b0 ≤ 0xDF then
      inRange 0x80 0xBF rest[0]? && utf8Fuel n (rest.drop 1)
    else if 0xE0 ≤ b0 && b0 ≤ 0xEF then
      (if b0 = 0xE0 then inRange 0xA0 0xBF rest[0]?
       else if b0 = 0xED then inRange 0x80 0x9F rest[0]?
       else inRange 0x80 0xBF rest[0]?) && inRange 0x80 0xBF rest[1]? && utf8Fuel n (rest.drop 2)
    else if 0xF0 ≤ b0 && b0 ≤ 0xF4 then
      (if b0 = 0xF0 then inRange 0x90 0xBF rest[0]?
       else if b0 = 0xF4 then inRange 0x80 0x8F rest[0]?
       else inRange 0x80 0xBF rest[0]?) && inRange 0x80 0xBF rest[1]? && inRange 0x80 0xBF rest[2]? &&
        utf8Fuel n (rest.drop 3)
    else false

def utf8Valid (d : Bytes) : Bool := utf8Fuel d.length d

/-- `PcapngOption.unpack` for `opt_comment`: `data.decode('utf-8')`; on failure, if there is a NUL,
    `data[:data.index(b'\0')].decode('ascii')`; otherwise the `UnicodeDecodeError` is re-raised. -/
def commentOk (d : Bytes) : Bool :=
  utf8Valid d || (d.contains 0 && (d.takeWhile (· ≠ 0)).all (· < 0x80))

/-- The `while opts_buf:` loop of `_do_unpack_options`. One round consumes `len(opt) ≥ 4` bytes, so fuel
    `ob.length` is never exhausted. -/
def parseOptsFuel : Nat → Endian → Bytes → Except Err (List Opt)
  | 0, _, _ => .ok []
  | fuel + 1, e, ob =>
    if ob.isEmpty then .ok []
    else if ob.length < 4 then .error .needData          -- PcapngOption(buf): struct.error → NeedData
    else
      let code := fld e ob 0 2
      let len := fld e ob 2 2
      let data := ob.slice 4 (4 + len)                  -- clamps
      if code = 1 ∧ commentOk data = false then .error .unicode
      else if code = 0 then .ok [⟨code, data⟩]          -- opt_endofopt: appended, then `break`
      else
        match parseOptsFuel fuel e (ob.drop (4 + align4 data.length)) with   -- opts_buf[len(opt):]
        | .ok os => .ok (⟨code, data⟩ :: os)
        | .error er => .error er

def parseOpts (e : Endian) (ob : Bytes) : Except Err (List Opt) := parseOptsFuel ob.length e ob

/-! ### blocks -/

/-- `Cls(buf)` up to the options: `dpkt.Packet.unpack` needs `__hdr_len__` bytes (`struct.error` becomes
    `NeedData` in `dpkt.Packet.__init__`); then `if self.len > len(buf): raise NeedData`. Returns `self.len`. -/
def blockHead (e : Endian) (hdrLen : Nat) (buf : Bytes) : Except Err Nat :=
  if buf.length < hdrLen then .error .needData
  else
    let len := fld e buf 4 4
    if len > buf.length then .error .needData else .ok len

/-- `_do_unpack_options(buf, oo)`: options from `buf[oo : len - 4]` (at every call site `len ≥ 7`, smaller
    lengths have raised in `read`, so Python's negative-index slicing is unreachable), then the duplicate length
    is taken from the LAST four bytes of what was read and compared. -/
def blockTail (e : Endian) (buf : Bytes) (len oo : Nat) : Except Err (List Opt) :=
  match parseOpts e (buf.slice oo (len - 4)) with
  | .error er => .error er
  | .ok opts =>
    if rdNat e (buf.drop (buf.length - 4)) ≠ len then .error .lenMismatch else .ok opts

/-- `EnhancedPacketBlock.unpack` (header 32 bytes: type, len, iface_id, ts_high, ts_low, caplen, pkt_len, _len).
    `PacketBlock` inherits it; its header is also 32 bytes with the same offsets from `ts_high` on
    (iface_id:H, drops_count:H replace iface_id:I). Returns `((ts_high << 32) | ts_low, pkt_data)`. -/
def parsePkt (e : Endian) (buf : Bytes) : Except Err (Nat × Bytes) :=
  match blockHead e 32 buf with
  | .error er => .error er
  | .ok len =>
    let tsHigh := fld e buf 12 4
    let tsLow := fld e buf 16 4
    let caplen := fld e buf 20 4
    let data := buf.slice 28 (28 + caplen)              -- buf[po:po + caplen], clamps
    match blockTail e buf len (28 + align4 caplen) with
    | .error er => .error er
    | .ok _ => .ok ((tsHigh <<< 32) ||| tsLow, data)

def parseEpb := parsePkt
def parsePb := parsePkt

/-- `DecryptionSecretBlock.unpack` (header 20 bytes: type, len, secrets_type, secrets_length, _len). -/
def parseDsb (e : Endian) (buf : Bytes) : Except Err Bytes :=
  match blockHead e 20 buf with
  | .error er => .error er
  | .ok len =>
    let slen := fld e buf 12 4
    let data := buf.slice 16 (16 + slen)
    match blockTail e buf len (16 + align4 slen) with
    | .error er => .error er
    | .ok _ => .ok data

/-- `InterfaceDescriptionBlock(buf)` (header 20 bytes: type, len, linktype, reserved, snaplen, _len) → `idb.opts` -/
def parseIdb (e : Endian) (buf : Bytes) : Except Err (List Opt) :=
  match blockHead e 20 buf with
  | .error er => .error er
  | .ok len => blockTail e buf len 16

/-- `SectionHeaderBlock(buf)` (header 28 bytes) → `v_major`. `buf` has at least 28 bytes here. -/
def parseShb (e : Endian) (buf : Bytes) : Except Err Nat :=
  match blockHead e 28 buf with
  | .error er => .error er
  | .ok len =>
    match blockTail e buf len 24 with
    | .error er => .error er
    | .ok _ => .ok (fld e buf 12 2)

/-! ### what the readers yield -/

/-- The operands of the one timestamp expression. `decimal = false`: Python computes the double
    `offset + ticks / float(divisor)`. `decimal = true` (nanosecond legacy pcap): Python computes the exact
    `Decimal` `offset + ticks / Decimal(divisor)`; main.py converts it with `float(ts)` (one rounding). -/
structure Time where
  ticks : Nat
  divisor : Nat
  offset : Int
  decimal : Bool := false
  deriving DecidableEq, Repr

inductive Item
  | pkt (t : Time) (data : Bytes)
  | dsb (secrets : Bytes)          -- yielded as `(-1, secrets)`: main.py recognises it by `ts == -1`
  deriving DecidableEq, Repr

structure Cfg where
  e : Endian
  divisor : Nat
  offset : Int
  deriving DecidableEq, Repr

/-! ### `Reader.__iter__` -/

/-- One block of `__iter__` once `buf` is complete: `none` = skipped. -/
def handle (c : Cfg) (ty : Nat) (buf : Bytes) : Except Err (Option Item) :=
  if ty = 6 then                                        -- PCAPNG_BT_EPB
    match parseEpb c.e buf with
    | .error er => .error er
    | .ok (ticks, data) => .ok (some (.pkt ⟨ticks, c.divisor, c.offset, false⟩ data))
  else if ty = 2 then                                   -- PCAPNG_BT_PB
    match parsePb c.e buf with
    | .error er => .error er
    | .ok (ticks, data) => .ok (some (.pkt ⟨ticks, c.divisor, c.offset, false⟩ data))
  else if ty = 10 then                                  -- PCAPNG_BT_DSB
    match parseDsb c.e buf with
    | .error er => .error er
    | .ok s => .ok (some (.dsb s))
  else .ok none                                         -- just ignore other blocks

/-- The generator: items yielded so far and the exception that ended it, if any. `f` is the unread part
    of the file. One round reads at least 8 bytes, so fuel `f.length` is never exhausted. -/
def iterFuel : Nat → Cfg → Bytes → List Item × Option Err
  | 0, _, _ => ([], none)
  | fuel + 1, c, f =>
    if f.length < 8 then ([], none)                     -- `if len(buf) < 8: break`
    else
      let ty := fld c.e f 0 4
      let len := fld c.e f 4 4
      match fread (f.drop 8) ((len : Int) - 8) with     -- buf += read(blk_len - 8)
      | .error er => ([], some er)
      | .ok body =>
        match handle c ty (f.take 8 ++ body) with
        | .error er => ([], some er)
        | .ok it =>
          let (xs, er) := iterFuel fuel c ((f.drop 8).drop body.length)
          (it.toList ++ xs, er)

def iter (c : Cfg) (f : Bytes) : List Item × Option Err := iterFuel f.length c f

/-! ### `Reader.__init__` -/

/-- `for opt in idb.opts:` — later options overwrite earlier ones.
    `opt_val = struct_unpack('b', opt.data)[0]` is a SIGNED byte; for −128 ≤ v < 0 Python's `v & 0x80` is `0x80`
    and `v & 0x7f` is the low seven bits of the unsigned byte, so the sign is harmless: flag = bit 7, exponent = bits 0–6. -/
def applyOpt (e : Endian) (st : Nat × Int) (o : Opt) : Except Err (Nat × Int) :=
  if o.code = 9 then                                    -- PCAPNG_OPT_IF_TSRESOL
    match o.data with
    | [b] =>
      let powNum := if b.toNat / 128 = 1 then 2 else 10
      .ok (powNum ^ (b.toNat % 128), st.2)              -- float(pow_num ** (opt_val & 0x7f))
    | _ => .error .structErr
  else if o.code = 14 then                              -- PCAPNG_OPT_IF_TSOFFSET
    if o.data.length = 8 then .ok (st.1, toInt64 (rdNat e o.data)) else .error .structErr
  else .ok st

def applyOpts (e : Endian) : (Nat × Int) → List Opt → Except Err (Nat × Int)
  | st, [] => .ok st
  | st, o :: os =>
    match applyOpt e st o with
    | .error er => .error er
    | .ok st' => applyOpts e st' os

/-- "look for a mandatory IDB": returns the first IDB's options. -/
def findIdbFuel : Nat → Endian → Bytes → Except Err (List Opt)
  | 0, _, _ => .error .noIdb
  | fuel + 1, e, f =>
    if f.length < 8 then .error .noIdb
    else
      let ty := fld e f 0 4
      let len := fld e f 4 4
      match fread (f.drop 8) ((len : Int) - 8) with
      | .error er => .error er
      | .ok body =>
        if ty = 1 then parseIdb e (f.take 8 ++ body)    -- PCAPNG_BT_IDB
        else findIdbFuel fuel e ((f.drop 8).drop body.length)

def findIdb (e : Endian) (f : Bytes) : Except Err (List Opt) := findIdbFuel f.length e f

def init (f : Bytes) : Except Err Cfg :=
  let buf0 := f.take 28
  if buf0.length < 28 then .error .hdrShort
  else if fld .be buf0 0 4 ≠ 0x0A0D0D0A then .error .notShb
  else
    let bom := fld .be buf0 8 4                           -- unpacked big-endian first
    let e? : Option Endian :=
      if bom = 0x4D3C2B1A then some .le else if bom = 0x1A2B3C4D then some .be else none
    match e? with
    | none => .error .endian
    | some e =>
      -- `_swap32b(shb.len)` for LE, `shb.len` for BE: the length field in the detected byte order
      match fread (f.drop 28) ((fld e buf0 4 4 : Int) - 28) with
      | .error er => .error er
      | .ok more =>
        match parseShb e (buf0 ++ more) with
        | .error er => .error er
        | .ok vMajor =>
          if vMajor ≠ 1 then .error .version
          else
            match findIdb e ((f.drop 28).drop more.length) with
            | .error er => .error er
            | .ok opts =>
              match applyOpts e (10 ^ 6, 0) opts with   -- defaults: float(1e6), 0
              | .error er => .error er
              | .ok (d, o) => .ok ⟨e, d, o⟩

/-! ### legacy pcap: contract of `dpkt.pcap.Reader` -/

structure LegacyCfg where
  e : Endian
  phLen : Nat        -- 16, or 24 for "modified" pcap
  nano : Bool
  deriving DecidableEq, Repr

def legacyInit (f : Bytes) : Except Err LegacyCfg :=
  let buf := f.take 24
  if buf.length < 24 then .error .needData              -- FileHdr(buf): struct.error → NeedData
  else
    let magic := fld .be buf 0 4
    if magic = 0xa1b2c3d4 then .ok ⟨.be, 16, false⟩
    else if magic = 0xa1b23c4d then .ok ⟨.be, 16, true⟩
    else if magic = 0xa1b2cd34 then .ok ⟨.be, 24, false⟩
    else if magic = 0xd4c3b2a1 then .ok ⟨.le, 16, false⟩
    else if magic = 0x4d3cb2a1 then .ok ⟨.le, 16, true⟩
    else if magic = 0x34cdb2a1 then .ok ⟨.le, 24, false⟩
    else .error .badMagic

/-- `yield (hdr.tv_sec + (hdr.tv_usec / self._divisor), buf)`: ticks = `tv_usec`, offset = `tv_sec`;
    `_divisor` is `1E6` or `Decimal('1E9')`. A short read of the packet data is not noticed. -/
def legacyIterFuel : Nat → LegacyCfg → Bytes → List Item × Option Err
  | 0, _, _ => ([], none)
  | fuel + 1, c, f =>
    if f.isEmpty then ([], none)                        -- `if not buf: break`
    else if f.length < c.phLen then ([], some .needData)
    else
      let sec := fld c.e f 0 4
      let sub := fld c.e f 4 4
      let caplen := fld c.e f 8 4
      let data := (f.drop c.phLen).take caplen
      let t : Time := ⟨sub, if c.nano then 10 ^ 9 else 10 ^ 6, sec, c.nano⟩
      let (xs, er) := legacyIterFuel fuel c ((f.drop c.phLen).drop data.length)
      (.pkt t data :: xs, er)

def legacyIter (c : LegacyCfg) (f : Bytes) : List Item × Option Err := legacyIterFuel f.length c f

/-! ### main.py l. 204–215: open, choose the reader, consume it -/

/-- Everything the loop `for ts, buf in pcap_reader` receives, and how the loop ends. -/
def readPrefix (legacy : Bool) (f : Bytes) : Except Err (List Item × Option Err) :=
  if legacy then
    match legacyInit f with
    | .error er => .error er
    | .ok c => .ok (legacyIter c (f.drop 24))
  else
    match init f with
    | .error er => .error er
    | .ok c => .ok (iter c f)                           -- `self.__f.seek(0)`

/-- The run gets past the read loop only if no exception ended the generator. -/
def read (legacy : Bool) (f : Bytes) : Except Err (List Item) :=
  match readPrefix legacy f with
  | .error er => .error er
  | .ok (xs, none) => .ok xs
  | .ok (_, some er) => .error er

/-! ### IEEE-754 evaluation (executable only — the runtime residue; never used in a theorem) -/

/-- correctly rounded `num / den` (round-half-even) for `num, den > 0`: what `float(Decimal)` gives. -/
def ratToFloat (num den : Nat) : Float :=
  if num = 0 ∨ den = 0 then 0.0 else
  -- scale so that the integer quotient has 54..55 significant bits, then let `Float.ofNat` round once;
  -- sticky bit keeps the rounding exact
  let nb := num.log2
  let db := den.log2
  let sh : Int := (55 : Int) + db - nb
  let (n', d') := if sh ≥ 0 then (num <<< sh.toNat, den) else (num, den <<< (-sh).toNat)
  let q := n' / d'
  let r := n' % d'
  let q' := 2 * q + (if r = 0 then 0 else 1)           -- sticky
  Float.scaleB (Float.ofNat q') (-(sh + 1))

/-- the double the pipeline receives for a packet -/
def Time.toFloat (t : Time) : Float :=
  if t.decimal then
    let num : Int := t.offset * t.divisor + t.ticks
    if num < 0 then -(ratToFloat num.natAbs t.divisor) else ratToFloat num.toNat t.divisor
  else Float.ofInt t.offset + Float.ofNat t.ticks / Float.ofNat t.divisor

/-- dpkt's writer: `int(round(ts * 1e6))` (Python 3 `round`: half to even), for `ts ≥ 0`. -/
def usOfFloat (ts : Float) : Nat :=
  let x := ts * 1e6
  let fl := x.floor
  let d := x - fl
  let n := fl.toUInt64.toNat
  if d < 0.5 then n else if d > 0.5 then n + 1 else if n % 2 = 0 then n else n + 1

end TLX.Container
