import TLX.Drv.Core
import TLX.Quic.TlsMsgs
namespace TLX.Drv.TlsMsgs
open TLX TLX.Quic.TlsMsgs

def optHex : Option Bytes → String
  | none => "N"
  | some b => Bytes.toHex b

def bit (b : Bool) : String := if b then "1" else "0"

/-- Canonical state line (`N` = None, `-` = b""). -/
def render (s : State) (e : Option Err) : String :=
  let st := match e with | none => "ok" | some .index => "err:index"
  s!"{st} cr={optHex s.clientRandom} cs={optHex s.ciphersuite} alpn={optHex s.alpn} vers={optHex s.tlsVers} greasy={bit s.greasyBit} new={bit s.newData} sid={optHex s.sessionId}"

/-- ops: `reset` · `clrnew` (new_data = False, as handle_crypto_frame does) · `rec <type> <hex>` -/
def step (s : State) : List String → State × String
  | ["reset"] => (State.init, "ok")
  | ["clrnew"] => ({ s with newData := false }, "ok")
  | ["rec", ty, hex] =>
    match ty.toNat?, Bytes.ofHex hex with
    | some ty, some b =>
      let (s', e) := handleRecord s ty b
      (s', render s' e)
    | _, _ => (s, "bad-op")
  | _ => (s, "bad-op")

def main : IO Unit := TLX.Drv.run State.init step
end TLX.Drv.TlsMsgs
