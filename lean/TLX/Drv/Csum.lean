import TLX.Drv.Core
import TLX.Checksum
namespace TLX.Drv.Csum
open TLX TLX.Checksum

def parseL4 : String → Option L4
  | "6" => some .tcp | "17" => some .udp | _ => none

/-- ops: `csum <hex>` → `<2 bytes hex>` | `err:overflow`
         `l4check <v6 0|1> <proto 6|17> <srchex> <dsthex> <l4seghex>` → `ok` | `bad` | `err:<kind>`
    (`proto` selects `calculate_checksum_tcp` / `_udp` and is the protocol byte the function reads) -/
def step (u : Unit) : List String → Unit × String
  | ["csum", hex] =>
    match Bytes.ofHex hex with
    | some b => (u, match onesComplementChecksum b with
                    | .ok out => Bytes.toHex out
                    | .error e => "err:" ++ e.tag)
    | none => (u, "bad-op")
  | ["l4check", v6, proto, src, dst, seg] =>
    match parseL4 proto, Bytes.ofHex src, Bytes.ofHex dst, Bytes.ofHex seg with
    | some k, some src, some dst, some seg =>
      (u, match check k (v6 == "1") src dst k.num seg with
          | .ok true => "ok"
          | .ok false => "bad"
          | .error e => "err:" ++ e.tag)
    | _, _, _, _ => (u, "bad-op")
  | _ => (u, "bad-op")

def main : IO Unit := TLX.Drv.run () step
end TLX.Drv.Csum
