import TLX.Drv.Core
import TLX.Quic.Frame
namespace TLX.Drv.Frames
open TLX TLX.Quic TLX.Quic.Varint TLX.Quic.Frame

def b01 (b : Bool) : String := if b then "1" else "0"

def clsName : Cls → String
  | .PaddingFrame => "PaddingFrame" | .PingFrame => "PingFrame" | .AckFrame => "AckFrame"
  | .ResetStreamFrame => "ResetStreamFrame" | .StopSendingFrame => "StopSendingFrame"
  | .CryptoFrame => "CryptoFrame" | .NewTokenFrame => "NewTokenFrame" | .StreamFrame => "StreamFrame"
  | .MaxDataFrame => "MaxDataFrame" | .MaxStreamDataFrame => "MaxStreamDataFrame"
  | .MaxStreamsFrame => "MaxStreamsFrame" | .DataBlockedFrame => "DataBlockedFrame"
  | .StreamDataBlockedFrame => "StreamDataBlockedFrame" | .StreamsBlockedFrame => "StreamsBlockedFrame"
  | .NewConnectionIdFrame => "NewConnectionIdFrame" | .RetireConnectionIdFrame => "RetireConnectionIdFrame"
  | .PathChallengeFrame => "PathChallengeFrame" | .PathResponseFrame => "PathResponseFrame"
  | .ConnectionCloseFrame => "ConnectionCloseFrame" | .HandshakeDoneFrame => "HandshakeDoneFrame"
  | .DatagramFrame => "DatagramFrame" | .GenericFrame => "GenericFrame"

def renderRanges (rs : List (Nat × Nat)) : String :=
  if rs.isEmpty then "-" else "/".intercalate (rs.map fun (g, l) => s!"{g}-{l}")

/-- The attributes of a frame object, by their Python names, in a fixed order. -/
def fields : Parsed → List (String × String)
  | .padding _ => []
  | .ping => []
  | .ack ft _ la d c f rs ecn =>
    [("frame_type", toString ft), ("largest_acknowledged", toString la), ("ack_delay", toString d),
     ("range_count", toString c), ("first_ack_range", toString f), ("ack_ranges", renderRanges rs)] ++
    (match ecn with
     | some (a, b, c) => [("ect_0_count", toString a), ("ect_1_count", toString b), ("ect_ce_count", toString c)]
     | none => [])
  | .resetStream _ sid err fs =>
    [("stream_id", toString sid), ("application_protocol_error_code", toString err), ("final_size", toString fs)]
  | .stopSending _ sid err => [("stream_id", toString sid), ("application_protocol_error_code", toString err)]
  | .crypto _ off n d => [("offset", toString off), ("crypto_length", toString n), ("crypto", Bytes.toHex d)]
  | .newToken _ n d => [("token_length", toString n), ("token", Bytes.toHex d)]
  | .stream ft _ fin len off sid offset n d =>
    [("frame_type", toString ft), ("fin", b01 fin), ("len", b01 len), ("off", b01 off), ("stream_id", toString sid),
     ("server_initiated", b01 (streamServerInitiated sid)), ("stream_unidirectional", b01 (streamUnidirectional sid)),
     ("offset", toString offset), ("data_length", toString n), ("stream_data", Bytes.toHex d)]
  | .maxData _ m => [("maximum_data", toString m)]
  | .maxStreamData _ sid m => [("stream_id", toString sid), ("maximum_stream_data", toString m)]
  | .maxStreams ft _ m => [("frame_type", toString ft), ("maximum_streams", toString m)]
  | .dataBlocked _ m => [("maximum_data", toString m)]
  | .streamDataBlocked _ sid m => [("stream_id", toString sid), ("maximum_stream_data", toString m)]
  | .streamsBlocked ft _ m => [("frame_type", toString ft), ("maximum_streams", toString m)]
  | .newConnectionId _ seq rpt cl cid tok =>
    [("sequence_number", toString seq), ("retire_prior_to", toString rpt), ("connection_id_length", toString cl),
     ("connection_id", Bytes.toHex cid), ("stateless_reset_token", Bytes.toHex tok)]
  | .retireConnectionId _ seq => [("sequence_number", toString seq)]
  | .pathChallenge d => [("data", Bytes.toHex d)]
  | .pathResponse d => [("data", Bytes.toHex d)]
  | .connectionClose ft _ err ct rl d =>
    [("frame_type", toString ft), ("error_code", toString err)] ++
    (match ct with | some c => [("close_frame_type", toString c)] | none => []) ++
    [("reason_phrase_length", toString rl), ("reason_phrase", Bytes.toHex d)]
  | .handshakeDone => []
  | .datagram ft _ lb d => [("frame_type", toString ft), ("len_bit", b01 lb), ("payload", Bytes.toHex d)]
  | .generic _ fl d => [("frame_length", toString fl), ("data", Bytes.toHex d)]

def renderFrame (f : Parsed) : String :=
  s!"{clsName f.cls}:{f.length}:" ++ ",".intercalate ((fields f).map fun (k, v) => s!"{k}={v}")

def renderFrames (fs : List Parsed) : String :=
  if fs.isEmpty then "ok 0" else s!"ok {fs.length} | " ++ " ; ".intercalate (fs.map renderFrame)

def optNat : Option Nat → String
  | some n => toString n
  | none => "err:index"

/-- ops: `frames <payload-hex>` → `ok <n> | <Class>:<length>:<field>=<value>,… ; …` or `err:index`
         `varint <hex>` → `<decode_variable_length_int | err:index> <get_variable_length_int_length | err:index>`
         `one <payload-hex>` → the first frame only (`parseOne`) -/
def step (u : Unit) : List String → Unit × String
  | ["frames", hex] =>
    match Bytes.ofHex hex with
    | some p => (u, match parseFrames p with | some fs => renderFrames fs | none => "err:index")
    | none => (u, "bad-op")
  | ["one", hex] =>
    match Bytes.ofHex hex with
    | some p => (u, match parseOne p with | some f => renderFrame f | none => "err:index")
    | none => (u, "bad-op")
  | ["varint", hex] =>
    match Bytes.ofHex hex with
    | some b => (u, s!"{optNat (decodeVarint b)} {optNat (getVarintLength b)}")
    | none => (u, "bad-op")
  | _ => (u, "bad-op")

def main : IO Unit := TLX.Drv.run () step
end TLX.Drv.Frames
