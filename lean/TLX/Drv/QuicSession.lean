/-
Line-protocol driver of the packet-level QUIC session model (`TLX/Quic/Session.lean`) over the toy instance
(`TLX/Quic/SessionToy.lean`: toy AEAD, toy key derivations, toy TLS parser).

  cfg <unbound 0|1>                         → ok     how the toy dev_quic_keys reports a missing line
  klclear                                   → ok
  kl <client_random> <label 0..4> <secret>  → ok     one key-log line
  new                                       → ok     fresh QuicSession
  dgram <fromClientAddr 0|1> <dcid> <version 0|1|2> <k> <pkt>×k      handle_packet
        pkt = 15 tokens: htype(s|l) ptype(i|z|o|h|r|v) ts first_byte version dcid_len dcid scid_len scid
              token_len_bytes token packet_len_bytes packet_num payload key_phase
              (bytes: hex, `-` empty, `N` None; key_phase: decimal or `N`)
        → <caught per packet, comma separated> <escaped> <state>
  t.bytes <tag> <n> <part>…                 → hex    toyBytes (twin check)
State (one line, canonical): see `showState`; `out=<total>:<entries appended by this request>`.
-/
import TLX.Drv.Core
import TLX.Quic.SessionToy
namespace TLX.Drv.QuicSession
open TLX TLX.Quic TLX.Cipher TLX.Quic.Session TLX.Quic.SessionToy

structure DSt where
  kl : List KlEntry := []
  unbound : Bool := true
  st : St Tls := St.init (params [] true)

def optHex (s : String) : Option (Option Bytes) :=
  if s = "N" then some none else (Bytes.ofHex s).map some

def optNat (s : String) : Option (Option Nat) :=
  if s = "N" then some none else s.toNat?.map some

def parsePType : String → Option PType
  | "i" => some .initial | "z" => some .rtt0 | "o" => some .rtt1 | "h" => some .handshake
  | "r" => some .retry | "v" => some .versionNeg | _ => none

def parseVersion : String → Option Version
  | "0" => some .unknown | "1" => some .v1 | "2" => some .v2 | _ => none

def parsePkt : List String → Option Pkt
  | [ht, pt, ts, fb, ver, dl, dcid, sl, scid, tlb, tok, lb, pn, pl, kp] => do
    let ht ← (match ht with | "s" => some HType.short | "l" => some HType.long | _ => none)
    let pt ← parsePType pt
    let ts ← ts.toNat?
    let fb ← Bytes.ofHex fb
    let ver ← optHex ver
    let dl ← optHex dl
    let dcid ← Bytes.ofHex dcid
    let sl ← optHex sl
    let scid ← optHex scid
    let tlb ← optHex tlb
    let tok ← optHex tok
    let lb ← optHex lb
    let pn ← optHex pn
    let pl ← optHex pl
    let kp ← optNat kp
    pure { htype := ht, ptype := pt, isServer := false, ts := ts, firstByte := fb, version := ver, dcidLen := dl,
           dcid := dcid, scidLen := sl, scid := scid, tokenLenBytes := tlb, token := tok, lenBytes := lb, pn := pn,
           payload := pl, keyPhase := kp }
  | _ => none

def parsePkts : Nat → List String → Option (List Pkt)
  | 0, [] => some []
  | 0, _ => none
  | k + 1, toks => do
    let p ← parsePkt (toks.take 15)
    let r ← parsePkts k (toks.drop 15)
    pure (p :: r)

def insertSorted (x : String) : List String → List String
  | [] => [x]
  | y :: ys => if x < y then x :: y :: ys else y :: insertSorted x ys

def sortStrs (l : List String) : List String := l.foldr insertSorted []

def join (sep : String) (l : List String) : String := sep.intercalate l

def showErrOpt : Option PyErr → String
  | none => "none"
  | some e => e.tag

def showAlg : Alg → String
  | .aesgcm => "aesgcm" | .aesccm => "aesccm" | .chachaPoly => "chachapoly" | _ => "other"

def showDir : Option DirKeys → String
  | none => "N.N"
  | some k => Bytes.toHex k.key ++ "." ++ Bytes.toHex k.iv

def showDec (d : Dec) : String :=
  showAlg d.alg ++ "." ++ showDir d.server ++ "." ++ showDir (some d.client) ++ "." ++
    Bytes.toHex d.serverSec ++ "." ++ Bytes.toHex d.clientSec

def showDecOpt : Option Dec → String
  | none => "N"
  | some d => showDec d

def showOptB : Option Bytes → String
  | none => "N"
  | some b => Bytes.toHex b

def showOptN : Option Nat → String
  | none => "N"
  | some n => toString n

def ptypeStr : PType → String
  | .initial => "i" | .rtt0 => "z" | .rtt1 => "o" | .handshake => "h" | .retry => "r" | .versionNeg => "v"

def b01 (b : Bool) : String := if b then "1" else "0"

def showOut (o : Out) : String :=
  let tail := s!"/{o.ts}/{b01 o.isServer}/{ptypeStr o.ptype}"
  match o.frame with
  | .versionNeg => "V" ++ tail
  | .parsed (.crypto _ off len data) => s!"C.{off}.{len}.{Bytes.toHex data}" ++ tail
  | .parsed (.stream ft _ fin _ _ sid off dl data) => s!"S.{ft}.{b01 fin}.{sid}.{off}.{dl}.{Bytes.toHex data}" ++ tail
  | .parsed _ => "other" ++ tail

def showSuite : Option SuiteSel → String
  | none => "N"
  | some s => s!"{HashSel.id s.hash}:{showAlg s.alg}:{s.keyLen}"

def showState (s : St Tls) (prevOut : Nat) : String :=
  let app := match s.decApp with
    | none => "N"
    | some gens => s!"{gens.length};" ++ join ";" (gens.map showDec)
  s!"v={Version.id s.version} can={b01 s.canDecrypt} etk={b01 s.earlyTrafficKeys} suite={showSuite s.suite} " ++
  s!"keys={b01 s.keysInitial}{b01 s.keysHs}{b01 s.keysApp}{b01 s.keysEarly} " ++
  s!"ep={s.epochClient},{s.epochServer} ph={showOptN s.lastPhaseClient},{showOptN s.lastPhaseServer} " ++
  s!"pnc={s.pnClient.initial},{s.pnClient.handshake},{s.pnClient.app} " ++
  s!"pns={s.pnServer.initial},{s.pnServer.handshake},{s.pnServer.app} " ++
  s!"cc={join "," (sortStrs (s.clientCids.map Bytes.toHex))} sc={join "," (sortStrs (s.serverCids.map Bytes.toHex))} " ++
  s!"tls={showOptB s.tls.cr}:{showOptB s.tls.cs}:{b01 s.tls.newData}:{s.tls.n}:{s.tls.h} " ++
  s!"I={showDecOpt s.decInitial} H={showDecOpt s.decHandshake} E={showDecOpt s.decEarly} A={app} " ++
  s!"out={s.out.length}:{join "|" ((s.out.drop prevOut).map showOut)}"

def step (d : DSt) : List String → DSt × String
  | ["cfg", u] => ({ d with unbound := u == "1" }, "ok")
  | ["klclear"] => ({ d with kl := [] }, "ok")
  | ["kl", cr, label, secret] =>
    match Bytes.ofHex cr, label.toNat?, Bytes.ofHex secret with
    | some cr, some l, some s => ({ d with kl := d.kl ++ [⟨cr, l, s⟩] }, "ok")
    | _, _, _ => (d, "bad-op")
  | ["new"] => ({ d with st := St.init (params d.kl d.unbound) }, "ok")
  | "dgram" :: fc :: dcid :: ver :: k :: rest =>
    match Bytes.ofHex dcid, parseVersion ver, k.toNat? with
    | some dcid, some ver, some k =>
      match parsePkts k rest with
      | none => (d, "bad-op")
      | some pkts =>
        let P := params d.kl d.unbound
        let prev := d.st.out.length
        let (s, caught, esc) := handlePacket P d.st ⟨fc == "1", dcid, ver, pkts⟩
        let c := if caught.isEmpty then "-" else join "," (caught.map showErrOpt)
        ({ d with st := s }, s!"{c} {showErrOpt esc} {showState s prev}")
    | _, _, _ => (d, "bad-op")
  | "t.bytes" :: tag :: n :: parts =>
    match tag.toNat?, n.toNat?, parts.mapM Bytes.ofHex with
    | some tag, some n, some parts => (d, Bytes.toHex (toyBytes tag parts n))
    | _, _, _ => (d, "bad-op")
  | _ => (d, "bad-op")

def main : IO Unit := TLX.Drv.run {} step
end TLX.Drv.QuicSession
