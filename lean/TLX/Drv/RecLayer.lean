/-
Line-protocol driver of the record-layer model (`TLX/RecordLayer.lean`) with the toy primitives inside.

  new <version> <alg> <maclen> <taglen|None> <blocklen> <etm> <keys…>   → ok | err:<kind>
        version ∈ ssl30 tls10 tls11 tls12 tls13 undef;  alg ∈ aes tdes camellia idea aesccm aesgcm chacha20 chachapoly arc4 none
        keys: 4 tokens (client_write_key server_write_key client_write_IV server_write_IV) or, for tls13, 8 tokens
              (c_hs_key s_hs_key c_app_key s_app_key c_hs_iv s_hs_iv c_app_iv s_app_iv); each hex, `-` (empty) or `None`
  dec <srv> <rectype> <recver> <body>      → ok <pt> | none | err:<kind>     (record = type ‖ version ‖ len16 ‖ body)
  decraw <srv> <raw>                       → same, on an arbitrary raw record
  rt <routine> <srv> <raw>                 → same, calling one routine directly (t13a t13s gs t12a t12b t12c lb)
  upd <srv>                                → ok | err:<kind>
  setseq <srv> <n>                         → ok      (test hook: plants `*_seq`, e.g. near 2^64)
  state                                    → cseq sseq clast slast crc4 src4 ckey skey civ siv (canonical)
  p.open / p.seal <alg> <key> <nonce> <aad> <taglen> <data>;  p.cbcdec / p.cbcenc <alg> <key> <iv> <data>;
  p.rc4 <key> <off> <data>;  p.rc4init <key>                 (the toy itself, for the twin check)
-/
import TLX.Drv.Core
import TLX.RecordLayer
import TLX.Crypto.Toy
namespace TLX.Drv.RecLayer
open TLX TLX.Cipher TLX.RecordLayer

def parseVersion : String → Option Version
  | "ssl30" => some .ssl30 | "tls10" => some .tls10 | "tls11" => some .tls11 | "tls12" => some .tls12
  | "tls13" => some .tls13 | "undef" => some .undefined | _ => none

def parseAlg : String → Option Alg
  | "aes" => some .aes | "tdes" => some .tdes | "camellia" => some .camellia | "idea" => some .idea
  | "aesccm" => some .aesccm | "aesgcm" => some .aesgcm | "chacha20" => some .chacha20
  | "chachapoly" => some .chachaPoly | "arc4" => some .arc4 | "none" => some .none | _ => none

/-- `None` → `some none`, hex → `some (some b)`. -/
def parseOptHex (s : String) : Option (Option Bytes) :=
  if s = "None" then some none else (Bytes.ofHex s).map some

def parseOptNat (s : String) : Option (Option Nat) :=
  if s = "None" then some none else s.toNat?.map some

def showOpt : Option Bytes → String
  | none => "None"
  | some b => Bytes.toHex b

def showErr (e : PyErr) : String := "err:" ++ e.tag

def showRes (x : Res (Option Bytes)) : String :=
  match x with
  | .ok (some pt) _ => "ok " ++ Bytes.toHex pt
  | .ok none _ => "none"
  | .err e _ => showErr e

def resState {α : Type} : Res α → Dec
  | .ok _ d => d
  | .err _ d => d

def showState (d : Dec) : String :=
  let rc (x : Option (Bytes × Nat)) : String := match x with | none => "None" | some (_, o) => toString o
  s!"cseq={d.c.seq} sseq={d.s.seq} clast={showOpt d.c.last} slast={showOpt d.s.last} crc4={rc d.c.rc4} " ++
  s!"src4={rc d.s.rc4} ckey={showOpt d.c.key} skey={showOpt d.s.key} civ={showOpt d.c.iv} siv={showOpt d.s.iv}"

def parseKeys (v : Version) (ks : List String) : Option Keys :=
  match v, ks.mapM parseOptHex with
  | .tls13, some [a, b, c, d, e, f, g, h] =>
    some { cHsKey := a, sHsKey := b, cAppKey := c, sAppKey := d, cHsIv := e, sHsIv := f, cAppIv := g, sAppIv := h }
  | .tls13, _ => none
  | _, some [a, b, c, d] => some { cKey := a, sKey := b, cIv := c, sIv := d }
  | _, _ => none

def routine (name : String) : Option (Prims → Rec → Bool → Dec → Py (Bytes × Dec)) :=
  match name with
  | "t13a" => some tls13Aead | "t13s" => some tls13Stream | "gs" => some genericStream
  | "t12a" => some tls12Aead | "t12b" => some tls12Block | "t12c" => some tls12Chacha
  | "lb" => some lastBlockCbc | _ => none

def showPy (x : Py Bytes) : String :=
  match x with
  | .ok b => "ok " ++ Bytes.toHex b
  | .error e => showErr e

def decRaw (st : Option Dec) (srv : String) (raw : Bytes)
    (f : Rec → Bool → Dec → Res (Option Bytes)) : Option Dec × String :=
  match st with
  | none => (st, "err:nodec")
  | some d =>
    match Rec.ofRaw raw with
    | .error e => (st, showErr e)
    | .ok r =>
      let res := f r (srv == "1") d
      (some (resState res), showRes res)

def step (st : Option Dec) : List String → Option Dec × String
  | "new" :: v :: a :: mac :: tag :: blk :: etm :: ks =>
    match parseVersion v, parseAlg a, mac.toNat?, parseOptNat tag, blk.toNat? with
    | some v, some a, some mac, some tag, some blk =>
      match parseKeys v ks with
      | none => (none, "bad-op")
      | some k =>
        match Dec.init Toy.prims a v mac tag blk (etm == "1") k with
        | .ok d => (some d, "ok")
        | .error e => (none, showErr e)
    | _, _, _, _, _ => (none, "bad-op")
  | ["dec", srv, typ, ver, body] =>
    match typ.toNat?, Bytes.ofHex ver, Bytes.ofHex body with
    | some t, some ver, some body =>
      decRaw st srv ([UInt8.ofNat t] ++ ver ++ Bytes.ofNatBE 2 body.length ++ body) (Dec.decrypt Toy.prims)
    | _, _, _ => (st, "bad-op")
  | ["decraw", srv, raw] =>
    match Bytes.ofHex raw with
    | some raw => decRaw st srv raw (Dec.decrypt Toy.prims)
    | none => (st, "bad-op")
  | ["rt", name, srv, raw] =>
    match routine name, Bytes.ofHex raw with
    | some f, some raw => decRaw st srv raw (fun r s d => lift d (f Toy.prims r s d))
    | _, _ => (st, "bad-op")
  | ["upd", srv] =>
    match st with
    | none => (st, "err:nodec")
    | some d =>
      match d.updateKeys (srv == "1") with
      | .ok _ d' => (some d', "ok")
      | .err e d' => (some d', showErr e)
  | ["setseq", srv, n] =>
    match st, n.toNat? with
    | some d, some n =>
      let x := d.get (srv == "1")
      (some (d.set (srv == "1") { x with seq := n }), "ok")
    | none, _ => (st, "err:nodec")
    | _, _ => (st, "bad-op")
  | ["state"] =>
    match st with
    | none => (st, "err:nodec")
    | some d => (st, showState d)
  | ["p.open", a, k, n, ad, tl, ct] =>
    match parseAlg a, Bytes.ofHex k, Bytes.ofHex n, Bytes.ofHex ad, tl.toNat?, Bytes.ofHex ct with
    | some a, some k, some n, some ad, some tl, some ct => (st, showPy (Toy.aeadOpen a k n ad tl ct))
    | _, _, _, _, _, _ => (st, "bad-op")
  | ["p.seal", a, k, n, ad, tl, pt] =>
    match parseAlg a, Bytes.ofHex k, Bytes.ofHex n, Bytes.ofHex ad, tl.toNat?, Bytes.ofHex pt with
    | some a, some k, some n, some ad, some tl, some pt => (st, "ok " ++ Bytes.toHex (Toy.aeadSeal a k n ad tl pt))
    | _, _, _, _, _, _ => (st, "bad-op")
  | ["p.cbcdec", a, k, iv, ct] =>
    match parseAlg a, Bytes.ofHex k, Bytes.ofHex iv, Bytes.ofHex ct with
    | some a, some k, some iv, some ct => (st, showPy (Toy.cbcDec a k iv ct))
    | _, _, _, _ => (st, "bad-op")
  | ["p.cbcenc", a, k, iv, pt] =>
    match parseAlg a, Bytes.ofHex k, Bytes.ofHex iv, Bytes.ofHex pt with
    | some a, some k, some iv, some pt => (st, "ok " ++ Bytes.toHex (Toy.cbcEnc a k iv pt))
    | _, _, _, _ => (st, "bad-op")
  | ["p.rc4", k, off, data] =>
    match Bytes.ofHex k, off.toNat?, Bytes.ofHex data with
    | some k, some off, some data => (st, "ok " ++ Bytes.toHex (Toy.rc4 k off data))
    | _, _, _ => (st, "bad-op")
  | ["p.rc4init", k] =>
    match Bytes.ofHex k with
    | some k => (st, match Toy.rc4Init k with | .ok _ => "ok" | .error e => showErr e)
    | none => (st, "bad-op")
  | _ => (st, "bad-op")

def main : IO Unit := TLX.Drv.run (none : Option Dec) step
end TLX.Drv.RecLayer
