import TLX.Drv.Core
import TLX.MainLoop
/-!
Driver of the main-loop model (`tlxdriver mainloop`), with *recording* sessions: a TLS session is the list of packet tags it
was given; a QUIC session is the list of its `handle_packet` calls (tag, DCID argument, version, keys in the key log at that
moment) and two CID sets that grow by the script carried by the request lines (`cc`/`sc` of a packet are added to the sets of
whichever session handles that packet).

ops (bytes as hex, `-` = empty; CID lists comma-separated, the empty CID is `e`, no CIDs `-`):
  `opts <ports|-> <c:0|1> <g:0|1>`    set the option vector, clear sessions and key log            → `ok`
  `reset`                              clear sessions and key log                                   → `ok`
  `keys <n>`                           extend the key log by n keys                                 → `keys <total>`
  `item dsb <n>`                       one capture item through `step` (a DSB with n keys)          → `keys <total>`
  `item pkt <PKT>`                     one capture item through `step`                              → decision
  `tcp <PKT>`                          `handle_packet` directly                                     → decision
  `udp <PKT>`                          `handle_quic_packet` directly                                → decision | `err:index`
  `dump`                               the two session lists                                        → one line
  `out`                                `exportAll`                                                  → one line
PKT = `<tag> <t|u|o> <src ip> <sport> <dst ip> <dport> <payload> <csumok:0|1> <cc> <sc>`
decision = `ignore <why>` | `tls new|fed <idx>` | `tls none` | `quic new|fed <idx> <dcid> <ver> <keys>` | `quic none`
-/
namespace TLX.Drv.MainLoop
open TLX TLX.MainLoop

structure DState where
  o : Opts
  script : List (Nat × List Bytes × List Bytes)
  st : State Nat (List Nat) Rec.QState

def lookup (script : List (Nat × List Bytes × List Bytes)) (tag : Nat) : List Bytes × List Bytes :=
  match script.find? (·.1 == tag) with
  | some e => e.2
  | none => ([], [])

def QM (d : DState) := Rec.quic (lookup d.script)

def allSome {α : Type} : List (Option α) → Option (List α)
  | [] => some []
  | none :: _ => none
  | some a :: r => (allSome r).map (a :: ·)

def parseCids (s : String) : Option (List Bytes) :=
  if s = "-" then some [] else allSome ((s.splitOn ",").map fun t => if t = "e" then some [] else Bytes.ofHex t)

def parseInts (s : String) : Option (List Int) :=
  if s = "-" then some [] else allSome ((s.splitOn ",").map String.toInt?)

def parseL4 : String → Option L4
  | "t" => some .tcp | "u" => some .udp | "o" => some .other | _ => none

def parsePkt : List String → Option (Pkt × List Bytes × List Bytes)
  | [tag, l4, sip, sp, dip, dp, pl, ck, cc, sc] => do
    let tag ← tag.toNat?
    let l4 ← parseL4 l4
    let sip ← Bytes.ofHex sip
    let sp ← sp.toNat?
    let dip ← Bytes.ofHex dip
    let dp ← dp.toNat?
    let pl ← Bytes.ofHex pl
    let cc ← parseCids cc
    let sc ← parseCids sc
    pure (⟨l4, ⟨sip, sp⟩, ⟨dip, dp⟩, pl, ck == "1", tag⟩, cc, sc)
  | _ => none

def renderVer : Version → String | .v1 => "v1" | .v2 => "v2" | .unknown => "unknown"
def renderWhy : Why → String
  | .notTcpUdp => "not-tcp-udp" | .emptyTcp => "empty-tcp" | .badCsumTcp => "csum-tcp"
  | .emptyUdp => "empty-udp" | .badCsumUdp => "csum-udp" | .noFixedBit => "no-fixed-bit"

/-- index of the first session whose state changed -/
def changed {α : Type} [DecidableEq α] : List (Sess α) → List (Sess α) → Nat → Option Nat
  | a :: as, b :: bs, i => if a.st = b.st then changed as bs (i + 1) else some i
  | _, _, _ => none

def tlsDecision (old new : List (TlsSess (List Nat))) : String :=
  if old.length < new.length then s!"tls new {old.length}"
  else match changed old new 0 with
    | some i => s!"tls fed {i}"
    | none => "tls none"

def lastCall (s : Option (QuicSess Rec.QState)) : String :=
  match s.bind (·.st.log.getLast?) with
  | some (_, dcid, v, k) => s!"{Bytes.toHex dcid} {renderVer v} {k}"
  | none => "?"

def quicDecision (old new : List (QuicSess Rec.QState)) : String :=
  if old.length < new.length then s!"quic new {old.length} {lastCall new[old.length]?}"
  else match changed old new 0 with
    | some i => s!"quic fed {i} {lastCall new[i]?}"
    | none => "quic none"

def renderCids (l : List Bytes) : String :=
  if l.isEmpty then "-" else ",".intercalate ((sortCids l).map fun c => if c.isEmpty then "e" else Bytes.toHex c)

def renderEp (e : Endpoint) : String := s!"{Bytes.toHex e.ip}:{e.port}"

def renderTls (s : TlsSess (List Nat)) : String :=
  s!"{renderEp s.server}>{renderEp s.client}[{".".intercalate (s.st.map toString)}]"

def renderQuic (s : QuicSess Rec.QState) : String :=
  let calls := s.st.log.map fun (t, dcid, v, k) => s!"{t}/{Bytes.toHex dcid}/{renderVer v}/{k}"
  s!"{renderEp s.server}>{renderEp s.client}[{".".intercalate calls}]c={renderCids s.st.cc}s={renderCids s.st.sc}"

def init : DState := ⟨⟨[443, 44330, 443], false, false, false, true, []⟩, [], ⟨[], [], []⟩⟩

def withScript (d : DState) (p : Pkt) (cc sc : List Bytes) : DState :=
  if cc.isEmpty && sc.isEmpty then d else { d with script := (p.tag, cc, sc) :: d.script }

def step (d : DState) : List String → DState × String
  | ["opts", ports, c, g] =>
    match parseInts ports with
    | some ps => ({ d with o := ⟨ps, c == "1", g == "1", false, true, []⟩, st := ⟨[], [], []⟩, script := [] }, "ok")
    | none => (d, "bad-op")
  | ["reset"] => ({ d with st := ⟨[], [], []⟩, script := [] }, "ok")
  | ["keys", n] =>
    match n.toNat? with
    | some n =>
      let kl := d.st.keylog ++ List.replicate n 0
      ({ d with st := { d.st with keylog := kl } }, s!"keys {kl.length}")
    | none => (d, "bad-op")
  | ["item", "dsb", n] =>
    match n.toNat? with
    | some n =>
      let st := TLX.MainLoop.step Rec.tls (QM d) d.o d.st (.dsb (List.replicate n 0))
      ({ d with st := st }, s!"keys {st.keylog.length}")
    | none => (d, "bad-op")
  | "item" :: "pkt" :: rest =>
    match parsePkt rest with
    | some (p, cc, sc) =>
      let d := withScript d p cc sc
      let st := TLX.MainLoop.step Rec.tls (QM d) d.o d.st (.frame p)
      let reply := match classify (κ := Nat) d.o (.frame p) with
        | .ignore w => s!"ignore {renderWhy w}"
        | .tls _ => tlsDecision d.st.tls st.tls
        | .quic _ _ _ => quicDecision d.st.quic st.quic
        | .keys _ => "?"
      ({ d with st := st }, reply)
    | none => (d, "bad-op")
  | "tcp" :: rest =>
    match parsePkt rest with
    | some (p, _, _) =>
      let tls := tlsHandle Rec.tls d.o d.st.tls p
      ({ d with st := { d.st with tls := tls } }, tlsDecision d.st.tls tls)
    | none => (d, "bad-op")
  | "udp" :: rest =>
    match parsePkt rest with
    | some (p, cc, sc) =>
      let d := withScript d p cc sc
      match quicHandle (QM d) d.o d.st.keylog d.st.quic p with
      | some q => ({ d with st := { d.st with quic := q } }, quicDecision d.st.quic q)
      | none => (d, "err:index")
    | none => (d, "bad-op")
  | ["dump"] =>
    let t := ";".intercalate (d.st.tls.map renderTls)
    let q := ";".intercalate (d.st.quic.map renderQuic)
    (d, s!"tls={if t.isEmpty then "-" else t} quic={if q.isEmpty then "-" else q}")
  | ["out"] =>
    let o := exportAll Rec.tls (QM d) d.o d.st
    (d, if o.isEmpty then "-" else ",".intercalate (o.map fun e => s!"{e.1}/{e.2}"))
  | _ => (d, "bad-op")

def main : IO Unit := TLX.Drv.run init step
end TLX.Drv.MainLoop
