import TLX.Drv.Core
import TLX.Quic.UdpOut
namespace TLX.Drv.UdpOut
open TLX TLX.Quic.UdpOut

/-- `<ftype>:<ts>:<srv 0|1>:<hex|->` -/
def parseFrame (tok : String) : Option Frame :=
  match tok.splitOn ":" with
  | [ft, ts, srv, d] =>
    match ft.toNat?, ts.toNat?, Bytes.ofHex d with
    | some ft, some ts, some d => if srv = "0" ∨ srv = "1" then some ⟨ft, ts, srv == "1", d⟩ else none
    | _, _, _ => none
  | _ => none

def renderDgram (d : Dgram) : String := s!"{if d.isServer then 1 else 0}:{d.ts}:{Bytes.toHex d.payload}"

/-- op: `udpout <md 0|1> <frame>…` → `empty` | `<srv>:<ts>:<hex|->` … (one token per output datagram) -/
def step (u : Unit) : List String → Unit × String
  | "udpout" :: md :: toks =>
    if md ≠ "0" ∧ md ≠ "1" then (u, "bad-op") else
    match toks.mapM parseFrame with
    | some fs =>
      let out := build (md == "1") fs
      (u, if out.isEmpty then "empty" else " ".intercalate (out.map renderDgram))
    | none => (u, "bad-op")
  | _ => (u, "bad-op")

def main : IO Unit := TLX.Drv.run () step
end TLX.Drv.UdpOut
