import TLX.Drv.Core
import TLX.TcpOut
namespace TLX.Drv.TcpOut
open TLX TLX.TcpOut

/-- `<srv>:<plainhex | N>:<ts1,ts2,…|->` -/
def parseRec (tok : String) : Option Rec :=
  match tok.splitOn ":" with
  | [srv, plain, ts] =>
    let tsl := if ts = "-" then some [] else (ts.splitOn ",").mapM (·.toNat?)
    let pl : Option (Option Bytes) := if plain = "N" then some none else (Bytes.ofHex plain).map some
    match tsl, pl with
    | some tsl, some pl => some ⟨pl, tsl, srv == "1"⟩
    | _, _ => none
  | _ => none

def renderFrame (f : Frame) : String :=
  s!"{f.ts}:{if f.fromServer then 1 else 0}:{f.flags}:{f.seq}:{f.ack}:{Bytes.toHex f.payload}"

/-- ops: `tcpout <rec>…` → frames | `err`;  `parts <hex> <k>` → parts | `err`;
    `port <keep 0|1> <serverport> <a:b,…|->` → exported server port -/
def step (u : Unit) : List String → Unit × String
  | "tcpout" :: toks =>
    match toks.mapM parseRec with
    | some recs =>
      match build recs with
      | some fs => (u, if fs.isEmpty then "empty" else " ".intercalate (fs.map renderFrame))
      | none => (u, "err")
    | none => (u, "bad-op")
  | ["parts", d, k] =>
    match Bytes.ofHex d, k.toNat? with
    | some d, some k =>
      match parts d k with
      | some ps => (u, s!"{ps.length} " ++ " ".intercalate (ps.map Bytes.toHex))
      | none => (u, "err")
    | _, _ => (u, "bad-op")
  | ["port", keep, sp, pm] =>
    let pairs := if pm = "-" then some [] else (pm.splitOn ",").mapM fun e =>
      match e.splitOn ":" with
      | [a, b] => do pure ((← a.toNat?), (← b.toNat?))
      | _ => none
    match sp.toNat?, pairs with
    | some sp, some pairs =>
      -- dict semantics: the last assignment to a key wins
      let pmf : Nat → Option Nat := fun p => (pairs.reverse.find? (·.1 == p)).map (·.2)
      (u, toString (exportedServerPort (keep == "1") pmf sp))
    | _, _ => (u, "bad-op")
  | _ => (u, "bad-op")

def main : IO Unit := TLX.Drv.run () step
end TLX.Drv.TcpOut
