/-
Line-protocol driver for the frame dissector (TLX/Dissect.lean) and the capture-to-main-loop glue (TLX/Ingest.lean),
module name `ingest`.

ops
  frame <hex>                 → `other` | `ip <v6> <srcMac> <dstMac> <src> <dst> <l4…>` | `err:<kind>`
       l4 = `tcp <sport> <dport> <seq> <ack> <payload> <p> <seg>` | `udp <sport> <dport> <payload> <p> <seg>` | `none`
  framed <base> <cbase> <hex> the same with the Python frame depth / C recursion units of the caller of `Packet(...)` given (RecursionError boundary)
  file <legacy 0|1> <c 0|1> <hex>  → one token per item, `-` for none, or `err:<kind>`
       `dsb:<label>.<client_random>.<value>,…`   (`dsb:` for no keys; the three fields in hex)
       `pkt:<tag>:<l4>:<sip>:<sport>:<dip>:<dport>:<csumOk>:<seq>:<ts µs>:<smac>:<dmac>:<v6>:<payload>`
-/
import TLX.Drv.Core
import TLX.Ingest
namespace TLX.Drv.Ingest
open TLX TLX.Dissect

def hx (b : Bytes) : String := Bytes.toHex b

def showL4 (p : Nat) (seg : Bytes) : Transport → String
  | .tcp sp dp seq ack pl => s!"tcp {sp} {dp} {seq} {ack} {hx pl} {p} {hx seg}"
  | .udp sp dp pl => s!"udp {sp} {dp} {hx pl} {p} {hx seg}"
  | .other => "none"

def showD : Except DErr Dissected → String
  | .error e => s!"err:{e.name}"
  | .ok .notIp => "other"
  | .ok (.ip x) =>
    s!"ip {if x.v6 then 1 else 0} {hx x.srcMac} {hx x.dstMac} {hx x.src} {hx x.dst} {showL4 x.p x.seg x.l4}"

def str (s : Keylog.Str) : String := Bytes.toHex (s.map UInt8.ofNat)

def showItem (info : Nat → Pipeline.Info) : MainLoop.Item Keylog.Key → String
  | .dsb ks => "dsb:" ++ ",".intercalate (ks.map fun k => s!"{str k.label}.{str k.clientRandom}.{str k.value}")
  | .frame p =>
    let i := info p.tag
    let l4 := match p.l4 with | .tcp => "tcp" | .udp => "udp" | .other => "other"
    s!"pkt:{p.tag}:{l4}:{hx p.src.ip}:{p.src.port}:{hx p.dst.ip}:{p.dst.port}:{if p.csumOk then 1 else 0}:{i.seq}:{i.ts}:" ++
    s!"{hx i.srcMac}:{hx i.dstMac}:{if i.ipv6 then 1 else 0}:{hx p.payload}"

def step (_ : Unit) : List String → Unit × String
  | ["frame", hex] =>
    match Bytes.ofHex hex with
    | some f => ((), showD (dissect f))
    | none => ((), "bad-op")
  | ["framed", base, cbase, hex] =>
    match base.toNat?, cbase.toNat?, Bytes.ofHex hex with
    | some b, some c, some f => ((), showD (dissectD ⟨b, c⟩ f))
    | _, _, _ => ((), "bad-op")
  | ["file", legacy, c, hex] =>
    match Bytes.ofHex hex with
    | some f =>
      match TLX.Ingest.itemsWith Keylog.srcHexClass (c == "1") (legacy == "1") f with
      | .error e => ((), s!"err:{e.name}")
      | .ok (xs, is) =>
        ((), if xs.isEmpty then "-" else " ".intercalate (xs.map (showItem (TLX.Ingest.lookup is))))
    | none => ((), "bad-op")
  | _ => ((), "bad-op")

def main : IO Unit := TLX.Drv.run () step
end TLX.Drv.Ingest
