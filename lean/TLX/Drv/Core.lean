/-
Line-protocol plumbing shared by all model drivers: one request per line, one reply line per
request. A module driver is an initial state and a `step : σ → List String → σ × String`
over the whitespace-separated tokens of the request.
-/
import TLX.Py
namespace TLX.Drv

def tokens (line : String) : List String :=
  (line.trimAscii.toString.splitOn " ").filter (· ≠ "")

partial def loop {σ : Type} (step : σ → List String → σ × String)
    (inp out : IO.FS.Stream) (s : σ) : IO Unit := do
  let line ← inp.getLine
  if line.isEmpty then return ()
  let (s', reply) := step s (tokens line)
  out.putStrLn reply
  loop step inp out s'

def run {σ : Type} (init : σ) (step : σ → List String → σ × String) : IO Unit := do
  loop step (← IO.getStdin) (← IO.getStdout) init

def asciiStr (l : List Nat) : String := String.ofList (l.map Char.ofNat)

end TLX.Drv
