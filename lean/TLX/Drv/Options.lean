import TLX.Drv.Core
import TLX.OptionsSrc
namespace TLX.Drv.Options
open TLX.Options

def strOfHex (s : String) : Option (List Nat) := (TLX.Bytes.ofHex s).map (·.map UInt8.toNat)

def allSome {α : Type} : List (Option α) → Option (List α)
  | [] => some []
  | none :: _ => none
  | some a :: r => (allSome r).map (a :: ·)

def renderErr : Err → String | .value => "err:value" | .index => "err:index"
def renderMap (m : List (Int × Int)) : String :=
  if m.isEmpty then "-" else ",".intercalate (m.map fun e => s!"{e.1}:{e.2}")
def renderInts (l : List Int) : String := if l.isEmpty then "-" else ",".intercalate (l.map toString)

/-- `n tok₁ … tokₙ rest` with `n = -1` for an absent option -/
def takeOpt : List String → Option (Option (List (List Nat)) × List String)
  | "-1" :: rest => some (none, rest)
  | n :: rest =>
    match n.toNat? with
    | none => none
    | some k =>
      if rest.length < k then none else
      match allSome ((rest.take k).map strOfHex) with
      | none => none
      | some ts => some (some ts, rest.drop k)
  | [] => none

def parseInts (s : String) : Option (List Int) :=
  if s = "-" then some [] else allSome ((s.splitOn ",").map String.toInt?)

def parseMap (s : String) : Option (List (Int × Int)) :=
  if s = "-" then some [] else
  allSome ((s.splitOn ",").map fun e =>
    match e.splitOn ":" with
    | [a, b] => match a.toInt?, b.toInt? with
      | some x, some y => some (x, y)
      | _, _ => none
    | _ => none)

/-- ops:
  `int <text>`                          → `err` | integer
  `portmap <n tok…>`                    → `err:value` | `err:index` | `k:v,…` (dict order) | `-`
  `parse <n tok…> <n tok…>`             → `ports=… keep=… map=…` | `err:…`     (first `-p`, then `-m`)
  `flow <ports> <sport> <dport>`        → `cand=<bool> server=<port> client=<port> sender=<bool>`
  `out <tcp|quic|quicold> <keep> <map> <server> <client>` → `<server'> <client'>` -/
def step (u : Unit) : List String → Unit × String
  | ["int", t] =>
    match strOfHex t with
    | some t => (u, match pyInt t with | none => "err" | some n => toString n)
    | none => (u, "bad-op")
  | "portmap" :: rest =>
    match takeOpt rest with
    | some (m, []) => (u, match getPortMap Src.bare m with | .error e => renderErr e | .ok pm => renderMap pm)
    | _ => (u, "bad-op")
  | "parse" :: rest =>
    match takeOpt rest with
    | some (p, rest') =>
      match takeOpt rest' with
      | some (m, []) =>
        (u, match Src.parse p m with
            | .error e => renderErr e
            | .ok r => s!"ports={renderInts r.serverPorts} keep={r.keep} map={renderMap r.portmap}")
      | _ => (u, "bad-op")
    | none => (u, "bad-op")
  | ["flow", ports, sport, dport] =>
    match parseInts ports, sport.toNat?, dport.toNat? with
    | some ps, some s, some d =>
      let r := roles ps s d
      (u, s!"cand={tlsCandidate ps s d} server={r.serverPort} client={r.clientPort} sender={r.serverIsSender}")
    | _, _, _ => (u, "bad-op")
  | ["out", kind, keep, m, sp, cp] =>
    match parseMap m, sp.toNat?, cp.toNat? with
    | some pm, some sp, some cp =>
      let r : Roles := ⟨sp, cp, false⟩
      let k := keep == "1"
      let o := match kind with
        | "tcp" => tcpOut Src.tcpDefault k pm r
        | "quic" => quicOut true Src.quicDefault k pm r
        | _ => quicOut false Src.quicDefault k pm r
      (u, s!"{o.1} {o.2}")
    | _, _, _ => (u, "bad-op")
  | _ => (u, "bad-op")

def main : IO Unit := TLX.Drv.run () step
end TLX.Drv.Options
