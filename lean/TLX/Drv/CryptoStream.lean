import TLX.Drv.Core
import TLX.Quic.CryptoStream
namespace TLX.Drv.CryptoStream
open TLX TLX.Quic.CryptoStream

def parsePT : String → Option PT
  | "i" => some .initial | "z" => some .rtt0 | "o" => some .rtt1 | "h" => some .handshake
  | _ => none

/-- driver state: the eight spaces and the record types on which the stubbed `handle_record` raises -/
structure St where
  st : State
  raiseTypes : List Nat

def St.raises (s : St) : Bytes → Bool := fun m =>
  match m with
  | [] => false
  | t :: _ => s.raiseTypes.contains t.toNat

def renderK (k : KState) : String :=
  let ids := if k.fb.isEmpty then "-" else ",".intercalate (k.fb.map fun f => toString f.id)
  s!"{k.off}:{Bytes.toHex k.buf}:{ids}"

/-- all eight spaces: client i z o h, then server i z o h -/
def renderState (st : State) : String :=
  " ".intercalate ([false, true].flatMap fun srv =>
    [PT.initial, PT.rtt0, PT.rtt1, PT.handshake].map fun pt => renderK (st.ks (srv, pt)))

/-- ops: `reset <t1,t2,…|->` (types `handle_record` raises on) → `ok`;
    `upd <srv> <pt> <id> <offset> <clen> <hex>` → `<ok|raise> <msg,msg,…|-> <8 spaces: off:buf:ids>` -/
def step (s : St) : List String → St × String
  | ["reset", ts] =>
    let l := if ts = "-" then some [] else (ts.splitOn ",").mapM (·.toNat?)
    match l with
    | some l => (⟨State.init, l⟩, "ok")
    | none => (s, "bad-op")
  | ["upd", srv, pt, id, off, clen, hex] =>
    match parsePT pt, id.toNat?, off.toNat?, clen.toNat?, Bytes.ofHex hex with
    | some pt, some id, some off, some clen, some data =>
      let r := update s.raises s.st (srv == "1", pt) ⟨id, off, data, clen⟩
      let msgs := if r.2.1.isEmpty then "-" else ",".intercalate (r.2.1.map Bytes.toHex)
      (⟨r.1, s.raiseTypes⟩, s!"{if r.2.2 then "raise" else "ok"} {msgs} {renderState r.1}")
    | _, _, _, _, _ => (s, "bad-op")
  | _ => (s, "bad-op")

def main : IO Unit := TLX.Drv.run ⟨State.init, []⟩ step
end TLX.Drv.CryptoStream
