/-
Line-protocol driver for the QUIC packet dissector model (TLX/Quic/Dissect.lean), module name `dissect`.

The header-protection primitive is the shared TOY instance `toyMask` (twin: `toy_mask` in harness/q2a_dissect.py, patched
over `tlexport.quic.quic_dissector.make_hp_mask` / `make_chacha_hp_mask`): every input matters (flag, key, sample) and
the validation is that of cryptography 50:
  AES-ECB   key length ∉ {16,24,32} → raises; empty sample → b"" (sic); sample length not a multiple of 16 → raises;
            else 16 bytes per block (the dissector never passes more than 16 bytes)
  ChaCha20  key length ≠ 32 → raises; sample (the nonce) ≠ 16 bytes → raises; else 5 bytes
-/
import TLX.Drv.Core
import TLX.Quic.Dissect
import TLX.Crypto.Toy
namespace TLX.Drv.Dissect
open TLX TLX.Quic TLX.Quic.Dissect

def toySeed (chacha : Bool) (key sample : Bytes) : Nat :=
  TLX.Cipher.Toy.fnvL (TLX.Cipher.Toy.fnvL (TLX.Cipher.Toy.fnvStep 2166137001 (if chacha then 1 else 0)) key) sample

def toyMask : MaskFn := fun chacha key sample =>
  if chacha then
    if key.length ≠ 32 then none
    else if sample.length ≠ 16 then none
    else some ((List.range 5).map (TLX.Cipher.Toy.pad (toySeed true key sample)))
  else
    if key.length ≠ 16 ∧ key.length ≠ 24 ∧ key.length ≠ 32 then none
    else if sample.length % 16 ≠ 0 then none
    else some ((List.range sample.length).map (TLX.Cipher.Toy.pad (toySeed false key sample)))

def b01 (b : Bool) : String := if b then "1" else "0"

def optHex : Option Bytes → String
  | none => "~"
  | some b => Bytes.toHex b

def optNat : Option Nat → String
  | none => "~"
  | some n => toString n

def ptypeName : PType → String
  | .initial => "INITIAL" | .rtt0 => "RTT_O" | .rtt1 => "RTT_1" | .handshake => "HANDSHAKE"
  | .retry => "RETRY" | .versionNeg => "VERSION_NEG"

def errName : DErr → String
  | .index => "index" | .struct => "struct" | .key => "key" | .mask => "mask" | .unbound => "unbound"

/-- every attribute of the packet object, by its Python name, in a fixed order; `~` = attribute absent / None.
    `first_byte` of RETRY / VERSION_NEG is an `int` in Python: rendered `int:<hex>`; `supported_version` is `()`. -/
def renderPkt (p : Pkt) : String :=
  let fbInt := p.ptype = .retry ∨ p.ptype = .versionNeg
  " ".intercalate [
    "header_type=" ++ (match p.htype with | .long => "LONG" | .short => "SHORT"),
    "packet_type=" ++ ptypeName p.ptype,
    "isserver=" ++ b01 p.isServer,
    "ts=" ++ toString p.ts,
    "first_byte=" ++ (if fbInt then "int:" else "") ++ Bytes.toHex p.firstByte,
    "version=" ++ optHex p.version,
    "dcid_len=" ++ optHex p.dcidLen,
    "dcid=" ++ Bytes.toHex p.dcid,
    "scid_len=" ++ optHex p.scidLen,
    "scid=" ++ optHex p.scid,
    "token_len=" ++ optNat p.tokenLen,
    "token_len_bytes=" ++ optHex p.tokenLenBytes,
    "token=" ++ optHex p.token,
    "packet_len=" ++ optHex p.packetLen,
    "packet_len_bytes=" ++ optHex p.lenBytes,
    "packet_num=" ++ optHex p.pn,
    "payload=" ++ optHex p.payload,
    "key_phase=" ++ optNat p.keyPhase,
    "retry_token=" ++ optHex p.retryToken,
    "retry_integ_tag=" ++ optHex p.retryTag,
    "supported_version=" ++ (if p.ptype = .versionNeg then "()" else "~"),
    "aad=" ++ optHex (aad p)]

def renderOut (o : Out) : String :=
  s!"n={o.pkts.length} rest={Bytes.toHex o.rest} err={match o.err with | none => "-" | some e => errName e}" ++
    String.join (o.pkts.map fun p => " | " ++ renderPkt p)

def parseKey (s : String) : Option (Option Bytes) :=
  if s = "!" then some none else (Bytes.ofHex s).map some

/-- `k1,…,k7` in the order of `KeyName`'s constructors; `!` = missing / None -/
def parseKeys (s : String) : Option (KeyName → Option Bytes) :=
  match (s.splitOn ",").map parseKey with
  | [some a, some b, some c, some d, some e, some f, some g] =>
    some fun
      | .serverInitial => a | .clientInitial => b | .serverHandshake => c | .clientHandshake => d
      | .clientEarly => e | .serverApplication => f | .clientApplication => g
  | _ => none

/-- ops (all byte strings in hex, `-` = empty):
      `x   <isserver> <chacha> <guessed_dcid> <ts> <keys> <data>` → one `extract_quic_packet` call
      `all <isserver> <chacha> <guessed_dcid> <ts> <keys> <data>` → the handle_packet loop: `turns=<n>` then every call
      `mask <chacha> <key> <sample>` → the toy primitive (`raise` = it raises) -/
def step (u : Unit) : List String → Unit × String
  | [op, srv, ch, g, ts, ks, data] =>
    match Bytes.ofHex g, ts.toNat?, parseKeys ks, Bytes.ofHex data with
    | some g, some ts, some keys, some d =>
      let env : Env := { keys := keys, chacha := ch == "1" }
      if op = "x" then (u, renderOut (extract toyMask env (srv == "1") g ts d))
      else if op = "all" then
        let tr := dissectTrace (σ := Unit) toyMask (fun _ => env) (fun _ _ => ()) (srv == "1") g ts () d
        (u, s!"turns={tr.length}" ++ String.join (tr.map fun (_, o) => " || " ++ renderOut o))
      else (u, "bad-op")
    | _, _, _, _ => (u, "bad-op")
  | ["mask", ch, key, sample] =>
    match Bytes.ofHex key, Bytes.ofHex sample with
    | some k, some s => (u, match toyMask (ch == "1") k s with | none => "raise" | some m => Bytes.toHex m)
    | _, _ => (u, "bad-op")
  | _ => (u, "bad-op")

def main : IO Unit := TLX.Drv.run () step
end TLX.Drv.Dissect
