import TLX.Drv.Core
import TLX.Quic.PktNum
namespace TLX.Drv.PktNum
open TLX.Quic.PktNum

def parsePType : String → Option PType
  | "i" => some .initial | "h" => some .handshake | "z" => some .zeroRtt | "o" => some .oneRtt
  | _ => none

/-- ops: `pnreset` · `pnset <srv> <type> <largest>` · `pn <srv> <type> <len> <trunc>` → `<full> <entry>` -/
def step (t : Table) : List String → Table × String
  | ["pnreset"] => (Table.init, "ok")
  | ["pnset", srv, ty, largest] =>
    match parsePType ty, largest.toNat? with
    | some ty, some l => (t.set (srv == "1") ty.space l, "ok")
    | _, _ => (t, "bad-op")
  | ["pn", srv, ty, n, trunc] =>
    match parsePType ty, n.toNat?, trunc.toNat? with
    | some ty, some n, some trunc =>
      let (out, t') := TLX.Quic.PktNum.step t (srv == "1") ty n trunc
      (t', s!"{out} {t'.get (srv == "1") ty.space}")
    | _, _, _ => (t, "bad-op")
  | _ => (t, "bad-op")

def main : IO Unit := TLX.Drv.run Table.init step
end TLX.Drv.PktNum
