/-
Line-protocol driver for the key-schedule model (C15), run with the real hashes of
TLX/Crypto/Hash.lean. Bytes are lower-case hex (`-` = empty), numbers decimal, booleans 0/1,
Python exceptions `err:<kind>`, Python `None` is `none`.

ops (one reply line each)
  hash <alg> <msg> · hmac <alg> <key> <msg> · hkdf_extract <alg> <salt> <ikm> · hkdf_expand <alg> <prk> <info> <len>
  prfssl30 <secret> <cr> <sr> <len> <nonkey> · prftls10 <secret> <cr> <sr> <label> <len> <nonkey>
  prftls12 <secret> <cr> <sr> <label> <len> <mac> · genms <ssl30|tls10|tls12|tls12sha384> <pms> <cr> <sr>
  devssl30 <ms> <sr> <cr> <keylen> <maclen> <kblen> <cipher> <aead>     (argument order of the Python function)
  devtls10 <ms> <sr> <cr> <keylen> <maclen> <kblen> <cipher> <aead>
  devtls12 <ms> <cr> <sr> <keylen> <maclen> <kblen> <cipher> <aead> <mac>
  dev13 <alg> <keylen> <secrets>
  tlskeys <version> <cipher> <cryptoflag> <modeflag> <keylen> <mac> <cr> <sr> <secrets>     (generate_keys)
  tlsinstall <…same…>      (through the try/except of handle_tls_handshake_record: an exception installs nothing)
  tlskeys13upd <…same…> <c|s|cs|sc>     (TLS 1.3: installed keys after update_keys for the given sides)
  mkinfo <label> <len> · quicinit <dcid> <ver> <chacha> · quicinitdec <dcid> <ver> <chacha>
  quickeys <alg> <keylen> <ver> <secrets> · quictls <code> <ver> <secrets>
  quicku <alg> <keylen> <k0,…,k5> <n> · epoch <alg> <keylen> <k0,…,k5> <events e.g. s1,c1,s0>
<secrets> = comma-separated `<label>:<hex>` with labels cr rsa chts shts cts0 sts0 cets sets other, `-` for none.
-/
import TLX.Drv.Core
import TLX.KeySchedule
import TLX.Crypto.Hash
namespace TLX.Drv.Keys
open TLX TLX.Crypto TLX.KeySchedule

def P : Prims := realPrims

def parseAlg : String → Option HashSuite
  | "md5" => some md5Suite | "sha1" => some sha1Suite | "sha256" => some sha256Suite | "sha384" => some sha384Suite
  | _ => none

def parseMac : String → Option MacTag
  | "md5" => some .md5 | "sha1" => some .sha1 | "sha256" => some .sha256 | "sha384" => some .sha384
  | _ => none

def parseCipher : String → Option CipherTag
  | "aes" => some .aes | "camellia" => some .camellia | "3des" => some .tripleDES | "idea" => some .idea
  | "rc4" => some .rc4 | "chacha" => some .chacha | "aesgcm" => some .aesgcm | "aesccm" => some .aesccm
  | "other" => some .other
  | _ => none

def parseVersion : String → Option Version
  | "ssl30" => some .ssl30 | "tls10" => some .tls10 | "tls11" => some .tls11 | "tls12" => some .tls12
  | "tls13" => some .tls13
  | _ => none

def parseQV : String → Option QuicVersion
  | "v1" => some .v1 | "v2" => some .v2 | "unknown" => some .unknown
  | _ => none

def parseBool : String → Option Bool
  | "0" => some false | "1" => some true | _ => none

def parseLabel : String → Option Label
  | "cr" => some .clientRandom | "rsa" => some .rsa | "chts" => some .clientHandshake
  | "shts" => some .serverHandshake | "cts0" => some .clientTraffic0 | "sts0" => some .serverTraffic0
  | "cets" => some .clientEarly | "sets" => some .serverEarly | "other" => some .other
  | _ => none

def parseSecrets (s : String) : Option (List Secret) :=
  if s = "-" then some [] else
  (s.splitOn ",").mapM fun item =>
    match item.splitOn ":" with
    | [l, v] => do pure ((← parseLabel l), (← Bytes.ofHex v))
    | _ => none

def parseList (s : String) : Option (List Bytes) :=
  if s = "-" then some [] else (s.splitOn ",").mapM Bytes.ofHex

def errName : PyErr → String
  | .index => "err:index" | .unbound => "err:unbound" | .overflow => "err:overflow" | .nonterm => "err:nonterm"
  | .typeErr => "err:type"

def hx (b : Bytes) : String := Bytes.toHex b
def hxo : Option Bytes → String
  | none => "none" | some b => hx b
def join (l : List String) : String := " ".intercalate l

def showR {α : Type} (f : α → String) : R α → String
  | .ok a => f a
  | .error e => errName e

def showKeys6 (k : Keys6) : String :=
  join [hx k.clientMac, hx k.serverMac, hx k.clientKey, hx k.serverKey, hx k.clientIv, hx k.serverIv]

def showI13 (k : Installed13) : String :=
  join [hxo k.clientKey, hxo k.clientIv, hxo k.serverKey, hxo k.serverIv, hxo k.clientHsKey, hxo k.clientHsIv,
        hxo k.serverHsKey, hxo k.serverHsIv, hxo k.clientAppKey, hxo k.clientAppIv, hxo k.serverAppKey,
        hxo k.serverAppIv]

def showInstalled : Option Installed → String
  | none => "none"
  | some (.legacy k) => "legacy " ++ showKeys6 k
  | some (.tls13 k) => "tls13 " ++ showI13 k

def showTriple (t : Triple) : String := join [hx t.key, hx t.iv, hx t.hp]
def showTripleO : Option Triple → String
  | none => "none none none" | some t => showTriple t

def showQuicKeys (k : QuicKeys) : String :=
  join [showTriple k.clientHs, showTriple k.serverHs, showTriple k.clientApp, showTriple k.serverApp,
        hx k.clientAppSec, hx k.serverAppSec, showTripleO k.clientEarly, showTripleO k.serverEarly]

def showDec (d : QDec) : String := ",".intercalate (d.map hx)

def showInitial (k : InitialKeys) : String :=
  join [hx k.clientKey, hx k.clientIv, hx k.clientHp, hx k.serverKey, hx k.serverIv, hx k.serverHp]

def iterUpdate (h : HashSuite) (keyLen : Nat) : Nat → QDec → R QDec
  | 0, d => .ok d
  | n + 1, d => do iterUpdate h keyLen n (← keyUpdate h keyLen d)

def parseEvents (s : String) : Option (List (Bool × Nat)) :=
  if s = "-" then some [] else
  (s.splitOn ",").mapM fun e =>
    match e.toList with
    | ['s', '0'] => some (true, 0) | ['s', '1'] => some (true, 1)
    | ['c', '0'] => some (false, 0) | ['c', '1'] => some (false, 1)
    | _ => none

def runEvents (h : HashSuite) (keyLen : Nat) : List (Bool × Nat) → Epochs → R Epochs
  | [], st => .ok st
  | (srv, ph) :: rest, st => do runEvents h keyLen rest (← checkKeyEpoch h keyLen st ph srv)

def tlsArgs (version cipher cf mf keylen mac cr sr secrets : String) :
    Option (Version × Suite × List Secret × Bytes × Bytes) := do
  let v ← parseVersion version
  let c ← parseCipher cipher
  let cf ← parseBool cf
  let mf ← parseBool mf
  let kl ← keylen.toNat?
  let m ← parseMac mac
  let cr ← Bytes.ofHex cr
  let sr ← Bytes.ofHex sr
  let ss ← parseSecrets secrets
  pure (v, ⟨c, cf, mf, kl, m⟩, ss, cr, sr)

def reply : List String → Option String
  | ["hash", alg, msg] => do
    let h ← parseAlg alg; let m ← Bytes.ofHex msg
    pure (hx (h.hash m))
  | ["hmac", alg, key, msg] => do
    let h ← parseAlg alg; let k ← Bytes.ofHex key; let m ← Bytes.ofHex msg
    pure (hx (h.hmac k m))
  | ["hkdf_extract", alg, salt, ikm] => do
    let h ← parseAlg alg; let s ← Bytes.ofHex salt; let i ← Bytes.ofHex ikm
    pure (hx (h.hkdfExtract s i))
  | ["hkdf_expand", alg, prk, info, len] => do
    let h ← parseAlg alg; let p ← Bytes.ofHex prk; let i ← Bytes.ofHex info; let n ← len.toNat?
    pure (hx (h.hkdfExpand p i n))
  | ["prfssl30", secret, cr, sr, len, nk] => do
    let s ← Bytes.ofHex secret; let cr ← Bytes.ofHex cr; let sr ← Bytes.ofHex sr
    let n ← len.toNat?; let nk ← parseBool nk
    pure (showR hx (prfSsl30 P s cr sr n nk))
  | ["prftls10", secret, cr, sr, label, len, nk] => do
    let s ← Bytes.ofHex secret; let cr ← Bytes.ofHex cr; let sr ← Bytes.ofHex sr; let l ← Bytes.ofHex label
    let n ← len.toNat?; let nk ← parseBool nk
    pure (showR hx (prfTls1011 P s cr sr l n nk))
  | ["prftls12", secret, cr, sr, label, len, mac] => do
    let s ← Bytes.ofHex secret; let cr ← Bytes.ofHex cr; let sr ← Bytes.ofHex sr; let l ← Bytes.ofHex label
    let n ← len.toNat?; let m ← parseMac mac
    pure (showR hx (prfTls12 P s cr sr l n m))
  | ["genms", ver, pms, cr, sr] => do
    let s ← Bytes.ofHex pms; let cr ← Bytes.ofHex cr; let sr ← Bytes.ofHex sr
    match ver with
    | "ssl30" => pure (showR hx (genMasterSsl30 P s cr sr))
    | "tls10" => pure (showR hx (genMasterTls1011 P s cr sr))
    | "tls12" => pure (hx (genMasterTls12 P .sha256 s cr sr))
    | "tls12sha384" => pure (hx (genMasterTls12 P .sha384 s cr sr))
    | _ => none
  | ["devssl30", ms, sr, cr, keylen, maclen, kblen, cipher, aead] => do
    let ms ← Bytes.ofHex ms; let sr ← Bytes.ofHex sr; let cr ← Bytes.ofHex cr
    let kl ← keylen.toNat?; let ml ← maclen.toNat?; let kb ← kblen.toNat?
    let c ← parseCipher cipher; let a ← parseBool aead
    pure (showR showKeys6 (devSsl30Keys P ms sr cr kl ml kb c a))
  | ["devtls10", ms, sr, cr, keylen, maclen, kblen, cipher, aead] => do
    let ms ← Bytes.ofHex ms; let sr ← Bytes.ofHex sr; let cr ← Bytes.ofHex cr
    let kl ← keylen.toNat?; let ml ← maclen.toNat?; let kb ← kblen.toNat?
    let c ← parseCipher cipher; let a ← parseBool aead
    pure (showR showKeys6 (devTls1011Keys P ms sr cr kl ml kb c a))
  | ["devtls12", ms, cr, sr, keylen, maclen, kblen, cipher, aead, mac] => do
    let ms ← Bytes.ofHex ms; let sr ← Bytes.ofHex sr; let cr ← Bytes.ofHex cr
    let kl ← keylen.toNat?; let ml ← maclen.toNat?; let kb ← kblen.toNat?
    let c ← parseCipher cipher; let a ← parseBool aead; let m ← parseMac mac
    pure (showR showKeys6 (devTls12Keys P ms cr sr kl ml kb c a m))
  | ["dev13", alg, keylen, secrets] => do
    let h ← parseAlg alg; let kl ← keylen.toNat?; let ss ← parseSecrets secrets
    pure (showR (fun k => join [hxo k.clientHsKey, hxo k.serverHsKey, hxo k.clientAppKey, hxo k.serverAppKey,
                                hxo k.clientHsIv, hxo k.serverHsIv, hxo k.clientAppIv, hxo k.serverAppIv])
          (devTls13Keys h ss kl))
  | ["tlskeys", version, cipher, cf, mf, keylen, mac, cr, sr, secrets] => do
    let (v, s, ss, cr, sr) ← tlsArgs version cipher cf mf keylen mac cr sr secrets
    pure (showR showInstalled (generateKeys P v s ss cr sr))
  | ["tlsinstall", version, cipher, cf, mf, keylen, mac, cr, sr, secrets] => do
    let (v, s, ss, cr, sr) ← tlsArgs version cipher cf mf keylen mac cr sr secrets
    pure (showInstalled (serverHelloInstall P v s ss cr sr))
  | ["tlskeys13upd", version, cipher, cf, mf, keylen, mac, cr, sr, secrets, sides] => do
    let (v, s, ss, cr, sr) ← tlsArgs version cipher cf mf keylen mac cr sr secrets
    let r := generateKeys P v s ss cr sr
    pure (showR (fun
      | some (.tls13 k) =>
        showInstalled (some (.tls13 (sides.toList.foldl (fun k c => updateKeys k (c == 's')) k)))
      | o => showInstalled o) r)
  | ["mkinfo", label, len] => do
    let l ← Bytes.ofHex label; let n ← len.toNat?
    pure (showR hx (makeInfo l n))
  | ["quicinit", dcid, ver, chacha] => do
    let d ← Bytes.ofHex dcid; let v ← parseQV ver; let c ← parseBool chacha
    pure (showR (fun | none => "none" | some k => showInitial k) (devInitialKeys P.sha256 d v c))
  | ["quicinitdec", dcid, ver, chacha] => do
    let d ← Bytes.ofHex dcid; let v ← parseQV ver; let c ← parseBool chacha
    pure (showR (fun | none => "none" | some (dec, k) => showDec dec ++ " " ++ showInitial k)
          (setInitialDecryptor P.sha256 d v c))
  | ["quickeys", alg, keylen, ver, secrets] => do
    let h ← parseAlg alg; let kl ← keylen.toNat?; let v ← parseQV ver; let ss ← parseSecrets secrets
    pure (showR showQuicKeys (devQuicKeys h kl ss v))
  | ["quictls", code, ver, secrets] => do
    let c ← code.toNat?; let v ← parseQV ver; let ss ← parseSecrets secrets
    pure (showR (fun
      | none => "none"
      | some q => join [showQuicKeys q.keys, showDec q.handshake, ";".intercalate (q.application.map showDec),
                        match q.early with | none => "none" | some d => showDec d])
      (setTlsDecryptors P c ss v))
  | ["quicku", alg, keylen, keys, n] => do
    let h ← parseAlg alg; let kl ← keylen.toNat?; let d ← parseList keys; let n ← n.toNat?
    pure (showR showDec (iterUpdate h kl n d))
  | ["epoch", alg, keylen, keys, events] => do
    let h ← parseAlg alg; let kl ← keylen.toNat?; let d ← parseList keys; let ev ← parseEvents events
    pure (showR (fun st => join [toString st.epochClient, toString st.epochServer, toString st.lastPhaseClient,
                                 toString st.lastPhaseServer, ";".intercalate (st.application.map showDec)])
          (runEvents h kl ev { application := [d] }))
  | _ => none

def step (u : Unit) (toks : List String) : Unit × String :=
  (u, (reply toks).getD "bad-op")

def main : IO Unit := TLX.Drv.run () step
end TLX.Drv.Keys
