import TLX.Drv.Core
import TLX.CipherSuite
namespace TLX.Drv.Suite
open TLX.CipherSuite TLX.Drv

def renderVal : Val → String
  | .tup c f => s!"tup:{asciiStr c}:{f}"
  | .cls c => s!"cls:{asciiStr c}"
  | .int n => s!"int:{n}"

def renderParams (ps : Params) : String :=
  ";".intercalate (ps.map fun e => s!"{asciiStr e.1}={renderVal e.2}")

/-- op: `suite <code>` → `none` | canonical parameter string -/
def step (u : Unit) : List String → Unit × String
  | ["suite", code] =>
    match code.toNat? with
    | some c => (u, match resolve c with | none => "none" | some ps => renderParams ps)
    | none => (u, "bad-op")
  | _ => (u, "bad-op")

def main : IO Unit := TLX.Drv.run () step
end TLX.Drv.Suite
