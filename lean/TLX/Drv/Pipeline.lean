/-
Driver for the composed TLS export model (TLX/Pipeline.lean inside TLX/MainLoop.lean's `run`), executed with Lean's
own hash functions (`Crypto.realPrims`) and the toy cipher primitives (`Cipher.Toy.prims`, the twin of
harness/toy_crypto.py). QUIC datagrams go to the composed QUIC export model (TLX/QuicPipeline.lean) with the same hash
functions (REAL QUIC key derivation), the toy AEAD and the toy header-protection mask of TLX/Drv/Dissect.lean
(twin: `toy_mask` in harness/q2a_dissect.py).

  reset                                   → ok          (forget everything; options back to defaults)
  opt <c 0|1> <g 0|1> <a 0|1> <p a,b,…|-> <m -|bare|a:b,…>   → ok      (-c, -g, -a, -p values, -m absent / bare / values)
  key <line as hex of its ASCII text>      → ok          (one line of the -s file, already accepted by the key-log reader)
  nokeyfile                                → ok          (run without -s)
  dsb <hexline> …                          → ok          (a decryption-secrets block at this point of the capture)
  pkt <tag> <tcp|udp|other> <srcip> <sport> <dstip> <dport> <csumok> <seq> <ts> <srcmac> <dstmac> <v6> <payload>  → ok
  runfile <legacy 0|1> <key-log file text as hex | -> <capture file as hex>
                                           → `file:<output file as hex>` | `abort:<exception kind>` (the real run dies) | `err:options`
  run                                      → frames `l4:ts:srcmac:dstmac:srcip:sport:dstip:dport:v6:flags:seq:ack:payload` joined
                                             by " ", `empty`, or `err:options`; `l4` = `t` (TCP) | `u` (UDP: flags, seq,
                                             ack are 0; the TLS model never emits a TCP frame without flags)
-/
import TLX.Drv.Core
import TLX.Pipeline
import TLX.QuicPipeline
import TLX.Drv.Dissect
import TLX.Crypto.Hash
import TLX.Crypto.Toy
import TLX.Ingest
import TLX.OutBytes
import TLX.Export
namespace TLX.Drv.Pipeline
open TLX TLX.MainLoop TLX.Pipeline

structure DSt where
  args : Args := ⟨none, none, false, false, false⟩
  fileKeys : Option (List Keylog.Key) := some []
  items : List (Item Keylog.Key) := []
  infos : List (Nat × Info) := []

def strOfHex (h : String) : Option (List Nat) := (Bytes.ofHex h).map fun b => b.map (·.toNat)

def keyOfHexLine (h : String) : Option Keylog.Key := (strOfHex h).bind Keylog.keyOfLine

def showPkt (p : OutPkt) : String :=
  let b01 (b : Bool) := if b then "1" else "0"
  s!"{if p.udp then "u" else "t"}:{p.ts}:{Bytes.toHex p.srcMac}:{Bytes.toHex p.dstMac}:{Bytes.toHex p.src.ip}:{p.src.port}:{Bytes.toHex p.dst.ip}:" ++
  s!"{p.dst.port}:{b01 p.ipv6}:{p.flags}:{p.seq}:{p.ack}:{Bytes.toHex p.payload}"

def asciiNats (s : String) : List Nat := s.toList.map Char.toNat

def step (t : DSt) : List String → DSt × String
  | ["reset"] => ({}, "ok")
  | ["opt", c, g, a, p, m] =>
    let pArg := if p = "-" then none else some ((p.splitOn ",").map asciiNats)
    let mArg := if m = "-" then none else if m = "bare" then some [] else some ((m.splitOn ",").map asciiNats)
    ({ t with args := ⟨pArg, mArg, c == "1", g == "1", a == "1"⟩ }, "ok")
  | ["nokeyfile"] => ({ t with fileKeys := none }, "ok")
  | ["key", h] =>
    match keyOfHexLine h with
    | some k => ({ t with fileKeys := some (t.fileKeys.getD [] ++ [k]) }, "ok")
    | none => (t, "bad-op")
  | "dsb" :: hs =>
    match hs.mapM keyOfHexLine with
    | some ks => ({ t with items := t.items ++ [.dsb ks] }, "ok")
    | none => (t, "bad-op")
  | ["pkt", tag, l4, sip, sport, dip, dport, cs, seq, ts, smac, dmac, v6, pay] =>
    match tag.toNat?, Bytes.ofHex sip, sport.toNat?, Bytes.ofHex dip, dport.toNat?, seq.toNat?, ts.toNat?,
          Bytes.ofHex smac, Bytes.ofHex dmac, Bytes.ofHex pay with
    | some tag, some sip, some sport, some dip, some dport, some seq, some ts, some smac, some dmac, some pay =>
      let l := if l4 = "tcp" then L4.tcp else if l4 = "udp" then L4.udp else L4.other
      let p : Pkt := ⟨l, ⟨sip, sport⟩, ⟨dip, dport⟩, pay, cs == "1", tag⟩
      ({ t with items := t.items ++ [.frame p], infos := (tag, ⟨seq, ts, smac, dmac, v6 == "1"⟩) :: t.infos }, "ok")
    | _, _, _, _, _, _, _, _, _, _ => (t, "bad-op")
  | ["run"] =>
    let info : Nat → Info := fun tag => ((t.infos.find? (·.1 == tag)).map (·.2)).getD default
    let TM := tlsMachine Crypto.realPrims Cipher.Toy.prims info
    let QM := QuicPipeline.quicMachine Drv.Dissect.toyMask Crypto.realPrims Cipher.Toy.prims info
    match runFrom TM QM freshState t.args ⟨t.fileKeys, t.items⟩ with
    | .error _ => (t, "err:options")
    | .ok (_, out) => (t, if out.isEmpty then "empty" else " ".intercalate (out.map showPkt))
  | ["runfile", legacy, keyhex, caphex] =>
    -- FILE TO FILE: capture file bytes (TLX.Ingest = reader + DSB key lines + dpkt dissection + checksum verdicts) →
    -- main loop with both composed machines → output file bytes (TLX.OutBytes = scapy serialisation + dpkt pcapng writer):
    -- the whole program as ONE function, `TLX.Export.exportFile`
    match Bytes.ofHex caphex, (if keyhex = "-" then some none else (strOfHex keyhex).map some) with
    | some cap, some keytext =>
      match Export.exportFile Drv.Dissect.toyMask Crypto.realPrims Cipher.Toy.prims t.args (legacy == "1") keytext cap with
      | .file f => (t, "file:" ++ Bytes.toHex f)
      | .abort k => (t, "abort:" ++ k.name)
      | .badOptions => (t, "err:options")
    | _, _ => (t, "bad-op")
  | _ => (t, "bad-op")

def main : IO Unit := TLX.Drv.run {} step
end TLX.Drv.Pipeline
