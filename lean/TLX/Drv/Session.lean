/-
Driver for the session state machine with a SCRIPTED decryptor (mirrored by the stub classes in
harness/c03_session.py): what `decrypt` / `update_keys` / `generate_keys` do is a fixed function of the record body,
the suite bytes and the decryptor's own counters, so that every path of `Session` (values, `None`, exceptions with
and without state change, key updates that fail) is driven on the real code and on the model alike.

  decrypt(record, isserver): body empty or body[0] = E0 → raise (state unchanged); E1 → raise after `calls += 1`;
      E2 → return None (`calls += 1`); 01 → `calls += 1`, return [calls_before % 251, srv, tag] ++ body[1:];
      anything else → `calls += 1`, return body[1:]
  update_keys(isserver): raise if `upd >= limit` else `upd += 1`
  generate_keys: suite not 2 bytes or suite[0] = F0 → unknown suite; client random starting F1 → no key-log line;
      suite[0] = F2 → the derivation raises;
      tls_version None → `keys` unbound (raises); else Decryptor with limit = suite[1],
      tag = (version code + 7·[0x0016 ∈ extensions] + 5·compression + suite[0]) mod 256
-/
import TLX.Drv.Core
import TLX.Session
namespace TLX.Drv.Session
open TLX TLX.Session

structure SDec where
  calls : Nat
  upd : Nat
  tag : Nat
  limit : Nat
  deriving Repr

def verCode : Ver → Nat
  | .ssl30 => 0 | .tls10 => 1 | .tls11 => 2 | .tls12 => 3 | .tls13 => 4

def scripted : Ops SDec where
  decrypt d r srv :=
    match r.body with
    | [] => (d, none)
    | b0 :: rest =>
      if b0 = 0xE0 then (d, none)
      else if b0 = 0xE1 then ({ d with calls := d.calls + 1 }, none)
      else if b0 = 0xE2 then ({ d with calls := d.calls + 1 }, some none)
      else if b0 = 0x01 then
        ({ d with calls := d.calls + 1 },
          some (some ([UInt8.ofNat (d.calls % 251), if srv then 1 else 0, UInt8.ofNat d.tag] ++ rest)))
      else ({ d with calls := d.calls + 1 }, some (some rest))
  updateKeys d _ := if d.upd ≥ d.limit then (d, false) else ({ d with upd := d.upd + 1 }, true)
  genKeys v suite cr _ exts comp :=
    match suite with
    | [a, b] =>
      if a = 0xF0 then .noSuite
      else if cr.head? = some 0xF1 then .noSecrets
      else if a = 0xF2 then .raised
      else match v with
        | none => .raised
        | some v =>
          let etm := if (extGet exts [0x00, 0x16]).isSome then 7 else 0
          .installed ⟨0, 0, (verCode v + etm + 5 * comp.toNat + a.toNat) % 256, b.toNat⟩
    | _ => .noSuite

structure DSt where
  exportMeta : Bool
  s : St SDec

def b01 (b : Bool) : String := if b then "1" else "0"

def showVer : Option Ver → String
  | none => "none"
  | some v => toString (verCode v)

def showEntry (e : Entry) : String :=
  let d := match e.data with
    | none => "N"
    | some b => Bytes.toHex b
  let id := match e.record.carriers with
    | [i] => toString i
    | _ => "?"
  s!"{d}:{id}:{b01 e.fromServer}"

def showSt (s : St SDec) (old : Nat) : String :=
  let dec := match s.dec with
    | none => "none"
    | some d => s!"{d.calls}:{d.upd}:{d.tag}:{d.limit}"
  let cr := match s.cr with
    | none => "none"
    | some b => Bytes.toHex b
  let added := s.traffic.drop old
  s!"cd={b01 s.canDecrypt} ch={b01 s.chSeen} ver={showVer s.ver} scc={b01 s.srvCC} ccc={b01 s.cliCC} dec={dec} cr={cr} " ++
    s!"n={s.traffic.length} new=[{";".intercalate (added.map showEntry)}] hbc={Bytes.toHex s.hsBufC} hbs={Bytes.toHex s.hsBufS}"

/-- ops: `new <meta 0|1>` → `ok`;  `rec <srv 0|1> <id> <rawhex>` → the state after `handle_tls_record` and the
    entries it appended, or `raised` if an exception escapes -/
def step (t : DSt) : List String → DSt × String
  | ["new", m] => (⟨m == "1", St.init⟩, "ok")
  | ["rec", srv, id, hex] =>
    match id.toNat?, Bytes.ofHex hex with
    | some id, some raw =>
      match handleRecordRaw scripted t.exportMeta t.s ⟨raw, [id]⟩ (srv == "1") with
      | .ok s' => ({ t with s := s' }, showSt s' t.s.traffic.length)
      | .raised s' => ({ t with s := s' }, "raised " ++ showSt s' t.s.traffic.length)
    | _, _ => (t, "bad-op")
  | _ => (t, "bad-op")

def main : IO Unit := TLX.Drv.run ⟨false, St.init⟩ step
end TLX.Drv.Session
