import TLX.Drv.Core
import TLX.Container
import TLX.Spec.Containers
namespace TLX.Drv.Container
open TLX TLX.Container

def showItem : Item → String
  | .pkt t d => s!"{if t.decimal then "pktdec" else "pkt"} {t.ticks} {t.divisor} {t.offset} {Bytes.toHex d}"
  | .dsb s => s!"dsb {Bytes.toHex s}"

def showResult : Except Err (List Item × Option Err) → String
  | .error er => s!"err:{er.name}"
  | .ok (xs, er) =>
    let parts := xs.map showItem ++ (match er with | some er => [s!"err:{er.name}"] | none => [])
    if parts.isEmpty then "-" else " ; ".intercalate parts

/-! `enc`: the SPECIFICATION encoder (TLX/Spec/Containers.lean) made executable, so that the harness can hand its
    output to the real readers: the statement of `reader_roundtrip` tested on the real code, without the model. -/
section Enc
open TLX.Spec.Containers

def parseEv (s : String) : Option Ev :=
  match s.splitOn ":" with
  | ["p", t, hex] => do let t ← t.toNat?; let d ← Bytes.ofHex hex; pure (.pkt t d)
  | ["d", hex] => do let d ← Bytes.ofHex hex; pure (.dsb d)
  | _ => none

def ascii (s : String) : Bytes := s.toList.map (fun c => UInt8.ofNat c.toNat)

def someOpts (i : Nat) (eoo : Bool) : Opts :=
  ⟨[⟨1, ascii s!"note {i}"⟩, ⟨2 + i % 3, List.replicate (i % 5) 7⟩], eoo⟩

def unrelatedBlock (e : Endian) (i : Nat) : Block :=
  match i % 5 with
  | 0 => nrb e [(1, [10, 0, 0, 1] ++ ascii "host" ++ [0])] {}
  | 1 => isb e 0 (1000 + i) (someOpts i true)
  | 2 => custom e true 32473 (List.replicate (i % 7) 1) {}
  | 3 => custom e false 32473 [1, 2, 3, 4, 5] (someOpts i true)
  | _ => spb e 3 [1, 2, 3]

/-- flags: o options everywhere · E no opt_endofopt · p blocks before the IDB · a blocks after the IDB · b a block before
    every event · z blocks at the end · P obsolete PB for odd events · x original length = captured + index · n ns magic -/
def encodeSpec (fmt e resol offset flags : String) (evs : List Ev) : Option Bytes := do
  let en ← (match e with | "le" => some Endian.le | "be" => some Endian.be | _ => none)
  let has := fun (c : Char) => flags.toList.contains c
  if fmt = "pcap" then
    pure (encode (.legacy { e := en, nano := has 'n', extraLen := fun i => if has 'x' then i else 0 }) evs)
  else
    let r ← (if resol = "-" then some none
             else match resol.toList with
               | 'd' :: k => (String.ofList k).toNat?.map (fun k => some (TsResol.dec k))
               | 'b' :: k => (String.ofList k).toNat?.map (fun k => some (TsResol.bin k))
               | _ => none)
    let o ← (if offset = "-" then some none else offset.toInt?.map some)
    let eoo := !has 'E'
    let hdr : NgHeader :=
      { e := en, shbOpts := if has 'o' then someOpts 0 eoo else {},
        preIdb := if has 'p' then [unrelatedBlock en 0, unrelatedBlock en 2] else [],
        idbOptsBefore := if has 'o' then [⟨2, ascii "eth0"⟩, ⟨1, ascii "first"⟩] else [],
        tsresol := r, tsoffset := o,
        idbOptsAfter := if has 'o' then [⟨12, ascii "Linux"⟩] else [],
        idbEoo := eoo }
    let v : NgVariant :=
      { hdr := hdr, afterIdb := if has 'a' then [unrelatedBlock en 1, unrelatedBlock en 3] else [],
        deco := fun i => { before := if has 'b' then [unrelatedBlock en i] else [],
                           usePb := has 'P' && i % 2 = 1, iface := 0, drops := i % 3,
                           extraLen := if has 'x' then i else 0,
                           opts := if has 'o' then someOpts i eoo else {} },
        atEnd := if has 'z' then [unrelatedBlock en 4, unrelatedBlock en 1] else [] }
    pure (encode (.pcapng v) evs)

end Enc

/-- ops: `read <file-hex>` (dpkt_dsb.Reader) · `readl <file-hex>` (dpkt.pcap.Reader, `-l`) →
      `pkt <ticks> <divisor> <offset> <hex> ; dsb <hex> ; … [; err:<kind>]` | `err:<kind>` | `-`
    `ts <ticks> <divisor> <offset> <decimal 0|1>` → `<bits of the double> <µs written by dpkt>`
    `enc <ng|pcap> <le|be> <d<k>|b<k>|-> <offset|-> <flags|-> <p:<ticks>:<hex> | d:<hex>>…` → file hex (Spec encoder) -/
def step (_ : Unit) : List String → Unit × String
  | ["read", hex] =>
    match Bytes.ofHex hex with
    | some f => ((), showResult (readPrefix false f))
    | none => ((), "bad-op")
  | ["readl", hex] =>
    match Bytes.ofHex hex with
    | some f => ((), showResult (readPrefix true f))
    | none => ((), "bad-op")
  | ["ts", ticks, divisor, offset, dec] =>
    match ticks.toNat?, divisor.toNat?, offset.toInt? with
    | some t, some d, some o =>
      let x := (Time.mk t d o (dec == "1")).toFloat
      ((), s!"{x.toBits} {usOfFloat x}")
    | _, _, _ => ((), "bad-op")
  | "enc" :: fmt :: e :: resol :: offset :: flags :: evs =>
    match evs.mapM parseEv with
    | some evs =>
      match encodeSpec fmt e resol offset flags evs with
      | some f => ((), Bytes.toHex f)
      | none => ((), "bad-op")
    | none => ((), "bad-op")
  | _ => ((), "bad-op")

def main : IO Unit := TLX.Drv.run () step
end TLX.Drv.Container
