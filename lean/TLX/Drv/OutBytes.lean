import TLX.Drv.Core
import TLX.OutBytes
import TLX.Drv.TcpOut
import TLX.Drv.UdpOut
namespace TLX.Drv.OutBytes
open TLX TLX.OutBytes

/-- session part of a builder op: `<keep 0|1> <portmap a:b,…|-> <v6 0|1> <servermac> <clientmac> <serverip> <clientip>
    <serverport> <clientport>` -/
structure SessArgs where
  keep : Bool
  portmap : List (Int × Int)
  v6 : Bool
  smac : Bytes
  cmac : Bytes
  server : MainLoop.Endpoint
  client : MainLoop.Endpoint

def parseSess : List String → Option SessArgs
  | [keep, pm, v6, smac, cmac, sip, cip, sport, cport] =>
    let pairs : Option (List (Int × Int)) := if pm = "-" then some [] else (pm.splitOn ",").mapM fun e =>
      match e.splitOn ":" with
      | [a, b] => do pure (((← a.toNat?) : Int), ((← b.toNat?) : Int))
      | _ => none
    match pairs, Bytes.ofHex smac, Bytes.ofHex cmac, Bytes.ofHex sip, Bytes.ofHex cip, sport.toNat?, cport.toNat? with
    | some pairs, some smac, some cmac, some sip, some cip, some sport, some cport =>
      some ⟨keep == "1", pairs, v6 == "1", smac, cmac, ⟨sip, sport⟩, ⟨cip, cport⟩⟩
    | _, _, _, _, _, _, _ => none
  | _ => none

def renderFrames (fs : List Frame) : String :=
  if fs.isEmpty then "empty" else
  " ".intercalate (fs.map fun f => s!"{f.ts}:" ++ (match serializeFrame f with
    | .ok b => Bytes.toHex b
    | .error e => "err-" ++ e.tag))

def parseFrame : List String → Option Frame
  | [v6, l4, smac, dmac, sip, dip, sport, dport, flags, seq, ack, ts, pay] =>
    match Bytes.ofHex smac, Bytes.ofHex dmac, Bytes.ofHex sip, Bytes.ofHex dip, sport.toNat?, dport.toNat?,
          flags.toNat?, seq.toNat?, ack.toNat?, ts.toNat?, Bytes.ofHex pay with
    | some smac, some dmac, some sip, some dip, some sport, some dport, some flags, some seq, some ack, some ts, some pay =>
      let k? : Option L4 := if l4 = "tcp" then some (.tcp flags seq ack) else if l4 = "udp" then some .udp else none
      k?.map fun k => ⟨ts, smac, dmac, ⟨sip, sport⟩, ⟨dip, dport⟩, v6 == "1", k, pay⟩
    | _, _, _, _, _, _, _, _, _, _, _ => none
  | _ => none

def parseFrames : Nat → List String → Option (List Frame)
  | 0, [] => some []
  | 0, _ :: _ => none
  | n + 1, toks =>
    match parseFrame (toks.take 13), parseFrames n (toks.drop 13) with
    | some f, some fs => some (f :: fs)
    | _, _ => none

def parsePkts : List String → Option (List (Bytes × Nat))
  | [] => some []
  | [_] => none
  | ts :: hex :: rest =>
    match ts.toNat?, Bytes.ofHex hex, parsePkts rest with
    | some ts, some b, some r => some ((b, ts) :: r)
    | _, _, _ => none

def render (r : Except Err Bytes) : String :=
  match r with
  | .ok b => Bytes.toHex b
  | .error e => "err:" ++ e.tag

/-- ops (a frame is 13 tokens: `<v6 0|1> <tcp|udp> <srcmac> <dstmac> <srcip> <dstip> <sport> <dport> <flags> <seq>
    <ack> <ts µs> <payload>`, bytes in hex, flags/seq/ack ignored for udp):
      `frame <frame>`                 → hex of `serializeFrame` | `err:value` | `err:struct`
      `file (<ts µs> <framehex>)*`    → hex of `pcapng`         | `err:struct`
      `export <n> <frame>*n`          → hex of `fileOfFrames`   | `err:…`
      `tcpbuild <sess> <rec>…`        → `TcpOut.build`, `Pipeline.addressed`, `serializeFrame`: `<ts>:<hex|err-…>`… |
                                        `empty` | `raised`  (records as for `tlxdriver tcpout`)
      `udpbuild <md 0|1> <sess> <frame>…` → `Quic.UdpOut.build`, `udpAddressed`, `serializeFrame` likewise
                                        (frames as for `tlxdriver udpout`)
      `tcpfile …` / `udpfile …`       → the same through `fileOfFrames`: hex of the file | `err:…` | `raised` -/
def step (u : Unit) : List String → Unit × String
  | "frame" :: toks =>
    match parseFrame toks with
    | some f => (u, render (serializeFrame f))
    | none => (u, "bad-op")
  | "file" :: toks =>
    match parsePkts toks with
    | some ps => (u, render (pcapng ps))
    | none => (u, "bad-op")
  | "export" :: n :: toks =>
    match n.toNat? with
    | some n =>
      match parseFrames n toks with
      | some fs => (u, render (fileOfFrames fs))
      | none => (u, "bad-op")
    | none => (u, "bad-op")
  | op :: toks =>
    if op = "tcpbuild" ∨ op = "tcpfile" then
      match parseSess (toks.take 9), (toks.drop 9).mapM TLX.Drv.TcpOut.parseRec with
      | some a, some recs =>
        let o : MainLoop.Opts := ⟨[], false, false, false, a.keep, a.portmap⟩
        let c : Pipeline.Conn := ⟨o, a.server, a.client, a.smac, a.cmac, a.v6, []⟩
        match TcpOut.build recs with
        | none => (u, "raised")
        | some fs =>
          let out := fs.map fun f => Frame.ofOutPkt (Pipeline.addressed o c f)
          (u, if op = "tcpbuild" then renderFrames out else render (fileOfFrames out))
      | _, _ => (u, "bad-op")
    else if op = "udpbuild" ∨ op = "udpfile" then
      match toks with
      | md :: toks =>
        match parseSess (toks.take 9), (toks.drop 9).mapM TLX.Drv.UdpOut.parseFrame with
        | some a, some fs =>
          let sp := TcpOut.exportedServerPort a.keep (Pipeline.portmapFn a.portmap) a.server.port
          let out := (Quic.UdpOut.build (md == "1") fs).map
            (udpAddressed a.smac a.cmac ⟨a.server.ip, sp⟩ a.client a.v6)
          (u, if op = "udpbuild" then renderFrames out else render (fileOfFrames out))
        | _, _ => (u, "bad-op")
      | [] => (u, "bad-op")
    else (u, "bad-op")
  | _ => (u, "bad-op")

def main : IO Unit := TLX.Drv.run () step
end TLX.Drv.OutBytes
