import TLX.Drv.Core
import TLX.KeylogSrc
namespace TLX.Drv.Keylog
open TLX.Keylog

/-- text travels as the hex of its latin-1 bytes (`-` = empty) -/
def strOfHex (s : String) : Option Str := (TLX.Bytes.ofHex s).map (·.map UInt8.toNat)
def hexOfStr (s : Str) : String := TLX.Bytes.toHex (s.map UInt8.ofNat)

def parseHc : String → Option HexClass
  | "src" => some srcHexClass | "lower" => some .lower | "any" => some .any | _ => none
def parseSel : String → Option Sel12
  | "first" => some .first | "master" => some .firstMaster | _ => none
def parseOptStr : String → Option (Option Str)
  | "none" => some none
  | "src" => some srcDefaultS
  | s => (strOfHex s).map some

def renderKey (k : Key) : String := s!"{hexOfStr k.label} {hexOfStr k.clientRandom} {hexOfStr k.value}"
def renderKeys (ks : List Key) : String :=
  s!"{ks.length} | " ++ " ; ".intercalate (ks.map renderKey)

def renderRes {α : Type} (f : α → String) : Res α → String
  | .ok a => "ok:" ++ f a | .missing => "missing" | .valueError => "valueError" | .unbound => "unbound"
def renderSlots (l : List (Option (List Nat))) : String :=
  ",".intercalate (l.map fun | none => "None" | some b => hexOfStr b)
def renderInstalled (i : Installed) : String :=
  "tls12=" ++ renderRes (fun p => (if p.1 then "p:" else "m:") ++ hexOfStr p.2) i.tls12 ++
  " tls13=" ++ renderRes renderSlots i.tls13 ++ " quic=" ++ renderRes renderSlots i.quic

def allSome {α : Type} : List (Option α) → Option (List α)
  | [] => some []
  | none :: _ => none
  | some a :: r => (allSome r).map (a :: ·)

/-- ops:
  `variant`                                  → `<lower|any> <known|unknown> <-s default hex|none>`
  `line <hc> <line>`                         → `none` | `<label> <cr> <value>`
  `keylog <hc> <text>`                       → `<n> | <label> <cr> <value> ; …`
  `fromhex <text>`                           → `err` | bytes
  `lookup <hc> <sel12> <cr> <text>…`         → installed secrets over `parse text₁ ++ parse text₂ ++ …`
  `load <hc> <packetfirst|dsbfirst> <sdefault> <sarg> <path> <content|none> <dsb>…` → `exit` | `crash:NeedData` | keys          -/
def step (u : Unit) : List String → Unit × String
  | ["variant"] =>
    let known := (classOfPattern TLX.Gen.keylogPattern).isSome
    (u, s!"{if srcHexClass = .lower then "lower" else "any"} {if known then "known" else "unknown"} " ++
        (match srcDefaultS with | none => "none" | some p => hexOfStr p))
  | ["line", hc, l] =>
    match parseHc hc, strOfHex l with
    | some hc, some l => (u, match getKeyFromLine hc l with | none => "none" | some k => renderKey k)
    | _, _ => (u, "bad-op")
  | ["keylog", hc, t] =>
    match parseHc hc, strOfHex t with
    | some hc, some t => (u, renderKeys (getKeysFromString hc t))
    | _, _ => (u, "bad-op")
  | ["fromhex", t] =>
    match strOfHex t with
    | some t => (u, match fromHex t with | none => "err" | some b => hexOfStr b)
    | none => (u, "bad-op")
  | "lookup" :: hc :: sel :: cr :: texts =>
    match parseHc hc, parseSel sel, strOfHex cr, allSome (texts.map strOfHex) with
    | some hc, some sel, some cr, some ts =>
      (u, renderInstalled (installed sel (ts.flatMap (getKeysFromString hc)) cr))
    | _, _, _, _ => (u, "bad-op")
  | "load" :: hc :: pf :: sdef :: sarg :: path :: content :: dsbs =>
    match parseHc hc, parseOptStr sdef, parseOptStr sarg, strOfHex path, parseOptStr content,
          allSome (dsbs.map strOfHex) with
    | some hc, some sdef, some sarg, some path, some content, some ds =>
      (u, match loadKeylog hc (pf == "packetfirst") sdef sarg (fun p => if p = path then content else none) ds with
          | .exit => "exit" | .needData => "crash:NeedData" | .keys ks => renderKeys ks)
    | _, _, _, _, _, _ => (u, "bad-op")
  | _ => (u, "bad-op")

def main : IO Unit := TLX.Drv.run () step
end TLX.Drv.Keylog
