import TLX.Drv.Core
import TLX.Reassembly
namespace TLX.Drv.Reasm
open TLX TLX.Reassembly

/-- One machine per direction (`c` = client→server buffer, `s` = server→client buffer). -/
structure DSt where
  c : St
  s : St

def DSt.init : DSt := ⟨St.init, St.init⟩

def showRecs (rs : List Rec) : String :=
  if rs.isEmpty then "-" else
  " ; ".intercalate (rs.map fun r =>
    s!"rec {Bytes.toHex r.1} carriers=[{",".intercalate (r.2.map toString)}]")

/-- ops: `reset` → `ok` · `seg <c|s> <id> <seq> <hex>` → the records handed on because of this packet
    (`rec <hex> carriers=[id,…] ; …`) or `-`.  `ing` is `Reassembly.ingest` or `Legacy.ingest`. -/
def step (ing : St → Seg → St) (t : DSt) : List String → DSt × String
  | ["reset"] => (DSt.init, "ok")
  | ["seg", dir, id, seq, hex] =>
    match id.toNat?, seq.toNat?, Bytes.ofHex hex with
    | some id, some seq, some data =>
      if dir == "s" then
        let st := ing { t.s with out := [] } ⟨id, seq, data⟩
        ({ t with s := st }, showRecs st.out)
      else if dir == "c" then
        let st := ing { t.c with out := [] } ⟨id, seq, data⟩
        ({ t with c := st }, showRecs st.out)
      else (t, "bad-op")
    | _, _, _ => (t, "bad-op")
  | _ => (t, "bad-op")

def main : IO Unit := TLX.Drv.run DSt.init (step Reassembly.ingest)
def mainLegacy : IO Unit := TLX.Drv.run DSt.init (step Reassembly.Legacy.ingest)
end TLX.Drv.Reasm
