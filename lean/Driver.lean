/-
`tlxdriver <module>`: runs one executable model behind the line protocol (TLX/Drv/Core.lean).
The Python harness feeds the same operations to the real TLExport code and diffs the outputs.
Everything imported here is Mathlib-free, so this is a native executable.
One line per module below.
-/
import TLX.Drv.PktNum
import TLX.Drv.Suite
import TLX.Drv.TcpOut
import TLX.Drv.Csum
import TLX.Drv.Keys
import TLX.Drv.Frames
import TLX.Drv.RecLayer
import TLX.Drv.Keylog
import TLX.Drv.Options
import TLX.Drv.Container
import TLX.Drv.Reasm
import TLX.Drv.Session
import TLX.Drv.Pipeline
import TLX.Drv.CryptoStream
import TLX.Drv.UdpOut
import TLX.Drv.TlsMsgs
import TLX.Drv.Dissect
import TLX.Drv.MainLoop
import TLX.Drv.QuicSession
import TLX.Drv.Ingest
import TLX.Drv.OutBytes

def main (args : List String) : IO UInt32 := do
  match args with
  | ["pn"] => TLX.Drv.PktNum.main; return 0
  | ["suite"] => TLX.Drv.Suite.main; return 0
  | ["tcpout"] => TLX.Drv.TcpOut.main; return 0
  | ["csum"] => TLX.Drv.Csum.main; return 0
  | ["keys"] => TLX.Drv.Keys.main; return 0
  | ["frames"] => TLX.Drv.Frames.main; return 0
  | ["reclayer"] => TLX.Drv.RecLayer.main; return 0
  | ["keylog"] => TLX.Drv.Keylog.main; return 0
  | ["options"] => TLX.Drv.Options.main; return 0
  | ["container"] => TLX.Drv.Container.main; return 0
  | ["reasm"] => TLX.Drv.Reasm.main; return 0
  | ["dissect"] => TLX.Drv.Dissect.main; return 0
  | ["reasm-legacy"] => TLX.Drv.Reasm.mainLegacy; return 0
  | ["pipeline"] => TLX.Drv.Pipeline.main; return 0
  | ["session"] => TLX.Drv.Session.main; return 0
  | ["cryptostream"] => TLX.Drv.CryptoStream.main; return 0
  | ["udpout"] => TLX.Drv.UdpOut.main; return 0
  | ["tlsmsgs"] => TLX.Drv.TlsMsgs.main; return 0
  | ["mainloop"] => TLX.Drv.MainLoop.main; return 0
  | ["quicsession"] => TLX.Drv.QuicSession.main; return 0
  | ["ingest"] => TLX.Drv.Ingest.main; return 0
  | ["outbytes"] => TLX.Drv.OutBytes.main; return 0
  | _ => IO.eprintln "usage: tlxdriver <module>"; return 2
