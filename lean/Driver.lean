/-
`tlxdriver`: runs the executable models behind a line protocol (one request per line, one reply
line per request). The Python harness feeds the same operations to the real TLExport code and
diffs the two output streams. Imports only Mathlib-free model files.
-/
import TLX.Py
import TLX.Quic.PktNum
import TLX.CipherSuite
open TLX

structure DState where
  pn : Quic.PktNum.Table := Quic.PktNum.Table.init

def asciiStr (l : List Nat) : String := String.ofList (l.map Char.ofNat)

def renderVal : CipherSuite.Val → String
  | .tup c f => s!"tup:{asciiStr c}:{f}"
  | .cls c => s!"cls:{asciiStr c}"
  | .int n => s!"int:{n}"

def renderParams (ps : CipherSuite.Params) : String :=
  ";".intercalate (ps.map fun e => s!"{asciiStr e.1}={renderVal e.2}")

def parsePType : String → Option Quic.PktNum.PType
  | "i" => some .initial | "h" => some .handshake | "z" => some .zeroRtt | "o" => some .oneRtt
  | _ => none

def stepLine (s : DState) (line : String) : DState × String :=
  match (line.trimAscii.toString.splitOn " ").filter (· ≠ "") with
  | ["suite", code] =>
    match code.toNat? with
    | some c => (s, match CipherSuite.resolve c with | none => "none" | some ps => renderParams ps)
    | none => (s, "bad-op")
  | ["pnreset"] => ({ s with pn := Quic.PktNum.Table.init }, "ok")
  | ["pn", srv, ty, n, trunc] =>
    match parsePType ty, n.toNat?, trunc.toNat? with
    | some ty, some n, some trunc =>
      let (out, t) := Quic.PktNum.step s.pn (srv == "1") ty n trunc
      ({ s with pn := t }, s!"{out} {t.get (srv == "1") ty.space}")
    | _, _, _ => (s, "bad-op")
  | ["pnset", srv, ty, largest] =>
    match parsePType ty, largest.toNat? with
    | some ty, some l => ({ s with pn := s.pn.set (srv == "1") ty.space l }, "ok")
    | _, _ => (s, "bad-op")
  | ["pnrfc", n, largest, trunc] =>
    match n.toNat?, largest.toNat?, trunc.toNat? with
    | some n, some l, some t => (s, toString (Quic.PktNum.rfcDecode (2 ^ (8 * n)) (2 ^ 62) l t))
    | _, _, _ => (s, "bad-op")
  | _ => (s, "bad-op")

partial def loop (h : IO.FS.Stream) (out : IO.FS.Stream) (s : DState) : IO Unit := do
  let line ← h.getLine
  if line.isEmpty then return ()
  let (s', reply) := stepLine s line
  out.putStrLn reply
  loop h out s'

def main : IO Unit := do
  let stdin ← IO.getStdin
  let stdout ← IO.getStdout
  loop stdin stdout {}
