-- Root of the `TLX` library: models, specifications and property theorems.
import TLX.Props.C16
import TLX.Props.C14
import TLX.Props.C06
import TLX.Props.C07
import TLX.Props.C13
import TLX.Props.C11
import TLX.Props.C15
import TLX.Props.C01
import TLX.Props.C05
import TLX.Props.C08
import TLX.Props.C09
import TLX.Props.C10
import TLX.Props.C12
import TLX.Props.C17
import TLX.Props.C01Suites
import TLX.Props.C02Session
