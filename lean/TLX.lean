-- Root of the `TLX` library: models, specifications and property theorems.
import TLX.Props.C16
